"""C08 - gate-keeping and error shape: class cross product over the in-process service vs the model."""
import itertools

from common import rng_for
import server_cases as sc

GOOD = ['http://site.test/a', 'https://site.test/b?x=1&y=2', 'http://site.test/', 'https://x']
BAD = ['http', 'https', 'file', 'http:', 'https:/', 'file:', 'HTTP://site.test/a', ' http://site.test/a', 'ftp://site.test/a', '', '//site.test/a', 'http:/x', 'File:///data/a.html',
       'javascript:alert(1)', 'httpx://y', 'site.test/a', 'http ://x', '\thttps://x', 'https:/\\x', 'FILE:///data/a.html',
       # values a URL library chokes on (unbalanced brackets, hosts that fail IDNA / NFKC checks, odd ports)
       'ftp://[::1', 'ftp://[localhost]/pub', '//[', 'gopher://ex\u2100mple.org/', 'ftp://host\uff03x/', 'ftp://h:99999999/', 'x://[', 'ftp://user:pw@[', 'ws://]']
FILES = ['file:///data/a.html', 'file:///data/b.txt']
FILE_TABLE = {'/data/a.html': sc.HTML_A, '/data/b.txt': b'plain text body'}
UNKNOWN = ['nope', 'HTML_TOKEN', 'length2', '_', '0', 'healthcheck2', 'links_']

FAILS = [('resp', 404, [('Content-Type', 'text/html')], b'nf'), ('resp', 500, [('Content-Type', 'text/html')], b'err'),
         ('resp', 301, [('Content-Type', 'text/html'), ('Location', 'http://x')], b''),
         ('httperror_noresp', 599), ('valueerror',), ('oserror',), ('timeout',), ('closed',)] + \
        [('curl', n) for n in (3, 63, 5, 7, 8, 9, 16, 28, 6, 35, 52)]
MEMENTOS = [('resp', 404, [('Content-Type', 'text/html'), ('Memento-Datetime', 'Tue, 01 Jan 2019 00:00:00 GMT')], sc.HTML_B),
            ('resp', 503, [('Content-Type', 'text/html'), ('memento-datetime', 'x')], sc.HTML_B)]


def classify(url, production):
    if url.startswith('file://'):
        return 'file-prod' if production else 'file'
    if url.startswith('http://') or url.startswith('https://'):
        return 'http'
    return 'bad'


def upstream_status(spec):
    if spec is None:
        return {502}
    if spec[0] == 'resp':
        if 200 <= spec[1] < 300 or any(k.lower() == 'memento-datetime' for k, _ in spec[2]):
            return None
        return {502}
    if spec[0] == 'timeout' or spec == ('curl', 28):
        return {504}
    if spec[0] == 'valueerror' or spec == ('curl', 3):
        return {400}
    return {502}


def observer(case, obs):
    import web_monitoring_diff.server.server as df
    fails = []
    params = {}
    for k, v in case['raw_query']:
        params[k] = v
    differ = case['differ']
    prod = case.get('production', False)
    touched = [e[1] for e in obs.log]
    if obs.status >= 400:
        j = obs.json
        if not (isinstance(j, dict) and j.get('code') == obs.status and isinstance(j.get('error'), str)):
            fails.append('error response is not a JSON object with code == HTTP status and a string error')
        if obs.headers.get('Etag') is not None:
            fails.append('error response carries a cache validator (Etag)')
    if differ not in df.DIFF_ROUTES:
        if obs.status != 404:
            fails.append('unknown differ answered %s, not 404' % obs.status)
        if obs.log:
            fails.append('unknown differ but something was fetched/read: %s' % obs.log)
        return fails
    if 'a' not in params or 'b' not in params:
        if obs.status != 400:
            fails.append('missing URL answered %s, not 400' % obs.status)
        if obs.log:
            fails.append('missing URL but something was fetched/read: %s' % obs.log)
        return fails
    allowed = set()
    may_open, may_fetch = [], []
    for side in ('a', 'b'):
        url = params[side]
        cl = classify(url, prod)
        if cl == 'bad':
            allowed.add(400)
        elif cl == 'file-prod':
            allowed.add(403)
        elif cl == 'file':
            may_open.append(url[7:])
        elif cl == 'http':
            may_fetch.append(url)
            st = upstream_status(case.get('upstream', {}).get(url, ('oserror',)))
            if st:
                allowed |= st
    for e in obs.log:
        pool = may_fetch if e[0] == 'fetch' else may_open
        if e[1] in pool:
            pool.remove(e[1])
        elif e[0] == 'fetch':
            fails.append('URL %r was requested upstream although it is not an http(s):// value of a or b' % e[1])
        else:
            fails.append('file %r was read although it is not a file:// value of a or b outside production' % e[1])
    if allowed:
        if obs.status not in allowed:
            fails.append('status %s, expected one of %s' % (obs.status, sorted(allowed)))
    return fails


def gen_cases(tier, rng):
    cases = []
    okup = {u: sc.ok_up(sc.HTML_A if i % 2 == 0 else sc.HTML_B) for i, u in enumerate(GOOD)}

    def mk(differ, a, b, production=False, upstream=None, extra=(), headers=None):
        raw = []
        if a is not None:
            raw.append(('a', a))
        raw.extend(extra)
        if b is not None:
            raw.append(('b', b))
        return {'differ': differ, 'raw_query': raw, 'upstream': dict(upstream if upstream is not None else okup),
                'files': FILE_TABLE, 'production': production, 'req_headers': headers or {}}

    url_kinds = [None] + GOOD[:2] + BAD + FILES
    differs = ['length', 'html_source_dmp', 'html_token'] if tier == 'quick' else sc.REGISTERED
    # 1. differ names x URL presence/kind x mode
    for differ in differs + UNKNOWN:
        for a, b in itertools.product(url_kinds, url_kinds):
            if tier == 'quick' and differ not in ('length', 'nope') and rng.random() > 0.12:
                continue
            for prod in (False, True):
                cases.append(mk(differ, a, b, production=prod))
    # 2. upstream outcomes on either side (and both)
    for differ in (['length', 'html_token'] if tier == 'quick' else sc.REGISTERED):
        for f in FAILS + MEMENTOS:
            for side in ('a', 'b', 'both'):
                up = dict(okup)
                if side in ('a', 'both'):
                    up[GOOD[0]] = f
                if side in ('b', 'both'):
                    up[GOOD[1]] = f
                cases.append(mk(differ, GOOD[0], GOOD[1], upstream=up))
        for f, g in itertools.product(FAILS[:8], FAILS[3:10]):
            if tier == 'quick' and rng.random() > 0.2:
                continue
            cases.append(mk(differ, GOOD[0], GOOD[1], upstream={GOOD[0]: f, GOOD[1]: g}))
    # 3. gate failure on one side, upstream failure / file on the other
    for bad in BAD[:6] + FILES:
        for f in FAILS[3:9]:
            for prod in (False, True):
                cases.append(mk('length', bad, GOOD[1], production=prod, upstream={GOOD[1]: f}))
                cases.append(mk('length', GOOD[0], bad, production=prod, upstream={GOOD[0]: f}))
    # 4. extra parameters, repeated keys
    extras = [[('format', 'json')], [('x', '1'), ('x', '2')], [('a', 'ftp://first')], [('b', '')],
              [('a_body', 'zzz'), ('func', 'x')], [('pass_headers', 'Cookie')], [('include', 'all'), ('url_rules', '')]]
    for ex in extras:
        for differ in ('length', 'html_token', 'nope'):
            cases.append(mk(differ, GOOD[0], GOOD[1], extra=ex, headers={'Cookie': 'k=v'}))
            cases.append(mk(differ, BAD[2], GOOD[1], extra=ex))
    # 5. every error class again with client headers and a pass_headers list in different spellings (the error path reads the request
    # headers too): the shape of the error response must not depend on them
    ph = ['Cookie', 'cookie', 'COOKIE,authorization', 'X-Custom, cookie', 'Not-Sent', 'authorization,x-custom']
    hdrs = [{'Cookie': 'k=v', 'Authorization': 'Bearer t', 'X-Custom': '1'}, {'cookie': 'k=v'}, {}]
    for differ in ('length', 'html_token'):
        for f in FAILS[:9] + MEMENTOS[:1]:
            for p_, h_ in itertools.product(ph, hdrs):
                if tier == 'quick' and rng.random() > 0.35:
                    continue
                side = rng.choice(['a', 'b'])
                up = dict(okup)
                up[GOOD[0] if side == 'a' else GOOD[1]] = f
                cases.append(mk(differ, GOOD[0], GOOD[1], upstream=up, extra=[('pass_headers', p_)], headers=h_))
        for p_, h_ in itertools.product(ph[:3], hdrs[:2]):
            cases.append(mk(differ, BAD[2], GOOD[1], extra=[('pass_headers', p_)], headers=h_))
            cases.append(mk(differ, FILES[0], GOOD[1], production=True, extra=[('pass_headers', p_)], headers=h_))
            cases.append(mk(differ, None, GOOD[1], extra=[('pass_headers', p_)], headers=h_))
            cases.append(mk('nope', GOOD[0], GOOD[1], extra=[('pass_headers', p_)], headers=h_))
    # 6. http(s) values with a malformed authority pass the scheme gate; whatever the fetch does with them, the error is well formed
    for bad in ('http://[::1', 'https://[localhost]/x', 'http://user:pw@[', 'http://ex\u2100mple.org/', 'http://h:99999999/', 'https://host\uff03x/'):
        for f in (('oserror',), ('timeout',), ('valueerror',), ('curl', 3), ('curl', 6), ('resp', 500, [('Content-Type', 'text/html')], b'err')):
            cases.append(mk('length', bad, GOOD[1], upstream={bad: f, GOOD[1]: okup[GOOD[1]]}))
            cases.append(mk('html_token', GOOD[0], bad, upstream={bad: f, GOOD[0]: okup[GOOD[0]]}))
    return cases


def run(rep, ctx):
    rng = rng_for(ctx['seed'], 'c08')
    rep.rule = ('class cross product: differ name (registered / unknown) x a,b in {absent, empty, http, https, 14 malformed or '
                'other-scheme spellings, file://} x environment mode x upstream outcome per side (status codes with/without '
                'Memento-Datetime, missing response, ValueError, OSError, both clients time-outs, stream closed, 11 cURL '
                'errnos) x extra / repeated parameters; non-trivial = the request reaches a gate or an upstream failure; '
                'distinct by (differ, query, mode, upstream table)')
    rep.trusted += ['modelled rather than verified: Tornado routing / request.arguments / send_error->clear() / JSON encoding; '
                    'asyncio.gather ordering of two failing sides (model follows the mock client timing; the observer accepts either side)',
                    'harness/httpkit.py: in-process service, mock upstream client, module-level open() replacement, inline executor']
    cases = gen_cases(ctx['tier'], rng)
    records = sc.run_cases(cases, ctx['model_available'])
    dist = {}
    for r in records:
        c, obs = r['case'], r['obs']
        rep.count((c['differ'], tuple(c['raw_query']), c['production'], repr(sorted(c['upstream'].items()))),
                  obs.status != 200)
        dist[obs.status] = dist.get(obs.status, 0) + 1
    rep.extra['status_distribution'] = {str(k): v for k, v in sorted(dist.items())}
    rep.sample(sc.describe(cases[3]))
    rep.sample(sc.describe(cases[len(cases) // 2]))
    rep.sample(sc.describe(cases[-1]))
    sc.report_records(rep, records, observer, 'gatekeeping')


def replay(rep, data):
    print(data.get('what'))
    print(data.get('case', {}).get('request'))
    return 1

"""C09 - page content never becomes active markup; deleted scripts are inert."""
import render_checks as rc
from props.render_common import run_render

ESCAPED = ['&lt;script&gt;alert(1)&lt;/script&gt;', '&lt;img src=x onerror=alert(1)&gt;', '&lt;style&gt;*{display:none}&lt;/style&gt;',
           '&amp;lt;script&amp;gt;', '"&gt;&lt;script&gt;x&lt;/script&gt;']


def extra_pairs():
    out = []
    for e in ESCAPED:
        for tmpl in ('<body>%s</body>', '<p>%s</p>', '<p>x<br>%s</p>', '<a href="/x">%s</a>', '<p><img src="i.png">%s</p>',
                     '<ul><li><input value="v">%s</li></ul>', '<title>%s</title><p>t</p>', '<p title="%s">attr</p>',
                     '<a href="/x?%s">l</a>', '<div>%s<script>real();</script></div>',
                     # elements whose text is raw text only under some parser settings (scripting, frames)
                     '<noscript>%s</noscript><p>t</p>', '<p>a<noscript>%s</noscript>b</p>', '<noframes>%s</noframes><p>t</p>', '<noembed>%s</noembed><p>t</p>', '<xmp>%s</xmp><p>t</p>',
                     '<object data="o">%s</object>', '<button>%s</button>', '<label>%s</label>', '<pre>%s</pre>', '<td>%s</td>'):
            page = tmpl % e
            out.append((page, page))
            out.append((page, page.replace('</', ' changed</', 1)))
            out.append((tmpl % 'plain', page))
    out.append(('<p>Counter: <span>visits <script>var n = 1;</script> and counting</span> today.</p>', '<p>Counter:  today.</p>'))
    out.append(('<div><b><script src="a.js"></script></b><style>p{}</style> x</div>', '<div> x</div>'))
    # embedded content whose text looks like what the string post-processing of the differ handles (end tags followed by a blank,
    # markers, spacer strings, link sentinels): it must come out exactly as it went in
    for blob in ('<script>var t = "<ul><li>a</li> <li>b</li></ul>";</script>', '<style>li:after { content: "</li> " } /* </p> </ul>  */</style>',
                 '<script>x = \'<ins class="wm-diff">\' + "~EMPTY~" + "\\nSPACER" + " Link: ";</script>', '<script>  lead(); \n\n  trail();  </script>',
                 '<textarea>a</li> b &lt;/li&gt; c</textarea>', '<template><ul><li>t</li> <li>u</li></ul></template>'):
        page = '<ul><li>one</li> <li>two</li></ul>%s<p>after</p>' % blob
        out.append((page, page))
        out.append((page, page.replace('after', 'after changed')))
        out.append(('<p>after</p>', page))
        out.append((page, '<p>after</p>'))
    return out


def fragment_correspondence(rep, ctx):
    """Model/RenderDoc.v diffable_fragment vs _diffable_fragment, char for char (the tree is encoded BEFORE the call: the code
    unwraps ins/del in place)"""
    import web_monitoring_diff.html_render_diff as h
    from common import run_driver, to_str, rng_for, L
    from props import c14
    rng = rng_for(ctx['seed'], 'c09-fragment')
    docs = [a for a, _ in rc.documents(rng, 120 if ctx['tier'] == 'quick' else 1500)] + [p for pair in extra_pairs() for p in pair] + \
           ['<body>x <ins>in <b>s</b> <del>d &lt;i&gt;</del></ins> y &amp;lt; <script>if (a < b) {}</script><style>a > b {}</style></body>',
            '<body>&lt;script&gt;alert(1)&lt;/script&gt;<del class="wm-diff"><ins>nested</ins></del></body>']
    lines, want = [], []
    skipped = 0
    for d in docs:
        try:
            soup = c14.parse_like_render(d)
            line = 'diffable_fragment %s' % L([c14.enc_node(c) for c in soup.body.children])
            want.append((d, h._diffable_fragment(soup.body)))
            lines.append(line)
        except c14.OutOfDomain:
            skipped += 1
    got = run_driver(lines)
    bad = 0
    for (d, w), g in zip(want, got):
        rep.count(('fragment', d), True)
        gs = to_str(g) if not isinstance(g, tuple) else None
        if gs != w:
            bad += 1
            if bad <= 2:
                k = next((i for i, (x, y) in enumerate(zip(gs or '', w)) if x != y), min(len(gs or ''), len(w)))
                # a fragment in which page text is not escaped is a failing input of the property itself
                unescaped = ('<script' in w and '&lt;script' in d and '<script' not in d.replace('&lt;script', ''))
                rep.violation('c09-fragment-%d' % bad, {'what': 'model diffable_fragment and _diffable_fragment differ at offset %d' % k,
                                                        'correspondence': 'Model/RenderDoc.v diffable_fragment vs _diffable_fragment(soup.body)',
                                                        'model_around': (gs or '')[max(0, k - 60):k + 60], 'implementation_around': w[max(0, k - 60):k + 60],
                                                        'a_text': d, 'b_text': d}, no_input=not unescaped)
    rep.obligation('correspondence c09: model diffable_fragment = _diffable_fragment, char for char, on %d page bodies (%d outside the modelled domain)' % (len(want), skipped), bad == 0)


def run(rep, ctx):
    from common import load_known_findings
    run_render(rep, ctx, 'c09', [('active-content', rc.c09_failures)], n_quick=350, n_thorough=6000, extra_pairs=extra_pairs(),
               corr_fraction=0.5)
    if ctx['model_available']:
        fragment_correspondence(rep, ctx)
    # ---- listed known findings: replayed every run, reported while they still fail
    for kf in load_known_findings('C09'):
        inp = kf['input']
        try:
            r = rc.render(inp['a_text'], inp['b_text'], include=inp.get('include', 'all'))
            fails = rc.c09_failures(inp['a_text'], inp['b_text'], r)
        except Exception as e:  # noqa
            fails = ['raised %r' % e]
        rep.count(('known', inp['a_text'], inp['b_text']), True)
        if fails:
            rep.known_finding(kf['what'])
        else:
            rep.extra.setdefault('known_findings_no_longer_failing', []).append(kf['id'])


def replay(rep, data):
    r = rc.render(data['a_text'], data['b_text'])
    f = rc.c09_failures(data['a_text'], data['b_text'], r)
    print(f)
    return 1 if f else 0

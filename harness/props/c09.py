"""C09 - page content never becomes active markup; deleted scripts are inert."""
import render_checks as rc
from props.render_common import run_render

ESCAPED = ['&lt;script&gt;alert(1)&lt;/script&gt;', '&lt;img src=x onerror=alert(1)&gt;', '&lt;style&gt;*{display:none}&lt;/style&gt;',
           '&amp;lt;script&amp;gt;', '"&gt;&lt;script&gt;x&lt;/script&gt;']


def extra_pairs():
    out = []
    for e in ESCAPED:
        for tmpl in ('<body>%s</body>', '<p>%s</p>', '<p>x<br>%s</p>', '<a href="/x">%s</a>', '<p><img src="i.png">%s</p>',
                     '<ul><li><input value="v">%s</li></ul>', '<title>%s</title><p>t</p>', '<p title="%s">attr</p>',
                     '<a href="/x?%s">l</a>', '<div>%s<script>real();</script></div>'):
            page = tmpl % e
            out.append((page, page))
            out.append((page, page.replace('</', ' changed</', 1)))
            out.append((tmpl % 'plain', page))
    out.append(('<p>Counter: <span>visits <script>var n = 1;</script> and counting</span> today.</p>', '<p>Counter:  today.</p>'))
    out.append(('<div><b><script src="a.js"></script></b><style>p{}</style> x</div>', '<div> x</div>'))
    return out


def run(rep, ctx):
    run_render(rep, ctx, 'c09', [('active-content', rc.c09_failures)], n_quick=350, n_thorough=6000, extra_pairs=extra_pairs(),
               corr_fraction=0.5)


def replay(rep, data):
    r = rc.render(data['a_text'], data['b_text'])
    f = rc.c09_failures(data['a_text'], data['b_text'], r)
    print(f)
    return 1 if f else 0

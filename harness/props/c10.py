"""C10 - links HTML view renders every entry faithfully without injection.

Correspondence: Model/LinksHtml.v links_html (tree construction + BeautifulSoup prettify) against the string that
links_diff_html returns, char for char, for the entries that links_diff_json returns for the same input.
Observer (independent of the model): the returned HTML parsed by html5-parser has one tr.links-list--item per
JSON entry, each showing the entry's text and target(s) as text and as link target, the title of the new page as
text, and no element outside the scaffold."""
import html as htmllib
import os
import re

from common import S, L, I, run_driver, to_str, rng_for

HOSTILE = ['<script>alert(1)</script>', '<img src=x onerror=alert(1)>', '</td></tr></table><h1>x</h1>', '<b>bold</b>', '&lt;b&gt;', '&amp;amp;', '"quoted"',
           "it's", '"both\' kinds"', '<!-- c -->', '</a>', '<ins class="wm-diff">fake</ins>', '<style>*{display:none}</style>', ']]>', '<', '>', '&', '&#x27;',
           'a<b', 'x > y', '  spaced  out ', '\ttab\nnewline', '☃ snow', 'é́', 'javascript:alert(1)', '" onmouseover="alert(1)', "' onfocus='x", '<br>', '<td>cell</td>',
           '</title><script>1</script>', '</style><script>2</script>', '()', '(', ')', '', ' ']
PLAIN = ['Home', 'About us', 'Read more', 'read more', 'Reports', 'Data & Tools', 'Contact', 'News 2020', 'x']
HREFS = ['/1', '/2', '/3?q=1&r=2', 'https://www.example.gov/reports', 'http://a.test/', 'mailto:x@y.z', '/p?a="1"&b=\'2\'', '/<script>', '/a b', '/ü',
         'javascript:alert(1)', '/">injected', "/'>injected", '/&amp;', '/&lt;x&gt;', '/x#<frag>', '']


def attr(v):
    return htmllib.escape(v, quote=True)


def gen_anchor(rng, texts, hrefs):
    t = rng.choice(texts)
    h = rng.choice(hrefs)
    k = rng.random()
    inner = htmllib.escape(t, quote=False)
    if k < 0.12:
        inner = '<img src="i.png" alt="%s">' % attr(t)
    elif k < 0.2:
        inner = '<span title="tip">%s</span> <b>%s</b>' % (inner, htmllib.escape(rng.choice(texts), quote=False))
    extra = ' title="%s"' % attr(rng.choice(texts)) if rng.random() < 0.15 else ''
    return '<a href="%s"%s>%s</a>' % (attr(h), extra, inner)


def gen_pair(rng):
    texts = rng.sample(HOSTILE, rng.randint(1, 5)) + rng.sample(PLAIN, rng.randint(1, 3))
    hrefs = rng.sample(HREFS, rng.randint(2, 6))
    n = rng.randint(0, 8)
    items = [gen_anchor(rng, texts, hrefs) for _ in range(n)]
    b_items = []
    for it in items:
        k = rng.random()
        if k < 0.15:
            continue
        if k < 0.35:
            it = re.sub(r'href="[^"]*"', 'href="%s"' % attr(rng.choice(hrefs)), it, count=1)
        elif k < 0.5:
            it = it.replace('</a>', htmllib.escape(' ' + rng.choice(texts), quote=False) + '</a>')
        b_items.append(it)
    for _ in range(rng.randint(0, 3)):
        b_items.insert(rng.randint(0, len(b_items)), gen_anchor(rng, texts, hrefs))
    ta = rng.choice(texts + ['Old title'])
    tb = rng.choice(texts + ['New title', ''])

    def page(title, its, with_title=True):
        t = '<title>%s</title>' % htmllib.escape(title, quote=False) if with_title else ''
        return '<html><head>%s</head><body><p>%s</p></body></html>' % (t, ' '.join(its))
    return page(ta, items), page(tb, b_items, rng.random() < 0.9)


def enc_entries(diff):
    out = []
    for code, link in diff:
        if code == 100:
            out.append(L([I(100), L([L([I(c), S(t)]) for c, t in link['text']]), L([L([I(c), S(t)]) for c, t in link['href']]),
                          S(link['hrefs'][0]), S(link['hrefs'][1])]))
        else:
            out.append(L([I(code), S(link['text']), S(link['href'])]))
    return L(out)


SCAFFOLD = {'table', 'colgroup', 'col', 'thead', 'tbody', 'tr', 'th', 'td', 'a', 'br', 'ins', 'del'}


def squash(s):
    return re.sub(r'\s+', '', s)


def observe(a, b, result, json_result):
    """the property, judged on the returned HTML with an independent parser"""
    import html5_parser
    from bs4 import Tag
    import web_monitoring_diff.html_links_diff as m
    fails = []
    soup = html5_parser.parse(result['diff'], treebuilder='soup', return_root=False)
    entries = list(json_result['diff'])
    rows = soup.select('tr.links-list--item')
    if len(rows) != len(entries):
        fails.append('%d rows for %d diff entries' % (len(rows), len(entries)))
    if result['change_count'] != json_result['change_count']:
        fails.append('change_count differs between the JSON and HTML views')
    # no element outside the scaffold
    body_names = {t.name for t in soup.body.find_all(True)}
    if body_names - SCAFFOLD:
        fails.append('elements outside the table scaffold in the body: %s' % sorted(body_names - SCAFFOLD))
    head_names = [t.name for t in soup.head.find_all(True)]
    if sorted(head_names) != ['meta', 'style', 'title']:
        fails.append('head elements are %s' % head_names)
    for t in soup.find_all(['ins', 'del']):
        if t.get('class') != ['wm-diff'] or t.find(True):
            fails.append('an ins/del that is not a plain change marker: %r' % str(t)[:80])
    for t in soup.find_all(True):
        for k in t.attrs:
            if k.startswith('on') or k in ('style', 'src', 'srcdoc', 'action', 'formaction'):
                fails.append('attribute %r on <%s>' % (k, t.name))
    # title
    import html5_parser as hp
    b_soup = hp.parse(b, treebuilder='soup', return_root=False)
    import render_lib
    want_title = render_lib.page_title(b_soup)
    got_title = soup.title.get_text() if soup.title else None
    if got_title is None or got_title.strip() != want_title.strip():
        fails.append('document title %r is not the new page title %r' % (got_title, want_title))
    # rows
    for row, (code, link) in zip(rows, entries):
        cells = row.find_all('td', recursive=False)
        if len(cells) != 3:
            fails.append('row with %d cells' % len(cells))
            continue
        text_cell, href_cell = cells[1], cells[2]
        anchors = href_cell.find_all('a')
        if code == 100:
            new_text = ''.join(t for c, t in link['text'] if c >= 0)
            old_text = ''.join(t for c, t in link['text'] if c <= 0)
            shown_new = squash(''.join(_text_outside(text_cell, 'del', until_br=True)))
            if shown_new != squash(new_text):
                fails.append('changed entry: new text shown %r, entry has %r' % (shown_new, new_text))
            if len(link['text']) != 1:
                shown_old = squash(''.join(_text_outside(text_cell, 'ins', after_br=True)))
                if shown_old != squash(old_text):
                    fails.append('changed entry: old text shown %r, entry has %r' % (shown_old, old_text))
            want = [link['hrefs'][1]] + ([link['hrefs'][0]] if link['hrefs'][0] != link['hrefs'][1] else [])
            if [x.get('href') for x in anchors] != want:
                fails.append('changed entry: link targets %r, entry has %r' % ([x.get('href') for x in anchors], want))
            for x, u in zip(anchors, want):
                if squash(x.get_text()) != squash('(%s)' % u):
                    fails.append('changed entry: target shown as %r, entry has %r' % (x.get_text(), u))
        else:
            if squash(text_cell.get_text()) != squash(link['text']):
                fails.append('entry text shown %r, entry has %r' % (text_cell.get_text(), link['text']))
            if len(anchors) != 1 or anchors[0].get('href') != link['href']:
                fails.append('entry target %r, entry has %r' % ([x.get('href') for x in anchors], link['href']))
            elif squash(anchors[0].get_text()) != squash('(%s)' % link['href']):
                fails.append('entry target shown as %r, entry has %r' % (anchors[0].get_text(), link['href']))
            if text_cell.find(True):
                fails.append('elements inside the text cell of an unchanged/added/removed entry: %r' % str(text_cell)[:100])
    return fails


def _text_outside(cell, skip, until_br=False, after_br=False):
    """texts of the cell before (until_br) or after (after_br) its <br>, skipping the given marker kind"""
    from bs4 import NavigableString
    out = []
    seen_br = False
    for c in cell.children:
        if getattr(c, 'name', None) == 'br':
            seen_br = True
            continue
        if until_br and seen_br:
            break
        if after_br and not seen_br:
            continue
        if isinstance(c, NavigableString):
            out.append(str(c))
        elif c.name != skip:
            out.append(c.get_text())
    return out


def model_line(json_result, title, palette):
    return 'links_html %s %s %s %s' % (S(title), S(palette['differ_insertion']), S(palette['differ_deletion']), enc_entries(json_result['diff']))


def run(rep, ctx):
    import html5_parser
    import web_monitoring_diff.html_links_diff as m
    from web_monitoring_diff.utils import get_color_palette
    tier = ctx['tier']
    rng = rng_for(ctx['seed'], 'c10')
    n = 400 if tier == 'quick' else 8000
    pairs = [gen_pair(rng) for _ in range(n)]
    pairs += [('<a href="/x">&lt;script&gt;alert(1)&lt;/script&gt;</a>', '<title>&lt;/title&gt;&lt;script&gt;alert(2)&lt;/script&gt;</title><a href="/x">&lt;script&gt;alert(1)&lt;/script&gt; more</a>'),
              ('<a href="/a">same</a>', '<a href="/a">same</a>'), ('', ''), ('<p>no links</p>', '<a href="/new">n</a>'),
              # a <title> that belongs to an embedded graphic is not the page's title
              ('<title>Old</title><a href="/a">x</a>', '<html><head></head><body><svg><title>Icon</title><circle r="1"/></svg><a href="/a">x</a> <a href="/b">y</a></body></html>'),
              ('<a href="/a">x</a>', '<html><head><title>Real</title></head><body><a href="/a"><svg><title>Logo</title></svg>x</a><math><title>m</title></math></body></html>'),
              # changed entries in which BOTH the text (only in letter case, so the links still match roughly) and the target change
              ('<a href="/reports/2016">Annual Report</a> <a href="/reports/archive">Annual Report</a>', '<a href="/reports/2017">ANNUAL REPORT</a> <a href="/reports/archive">Annual Report</a>'),
              ('<a href="/n/1">news</a><a href="/n/2">News</a><a href="/n/3">NEWS</a>', '<a href="/n/4">NEWS</a><a href="/n/2">News</a><a href="/n/5">news item</a>'),
              ('<a href="/x">Read More</a><a href="/y">Read More</a><a href="/z">Read more</a>', '<a href="/x2">read more</a><a href="/y">Read More</a><a href="/z">READ MORE</a>')]
    # case variants of one text over several targets, edited in text case and target at once
    for _ in range(40 if tier == 'quick' else 600):
        base = rng.choice(['Annual Report', 'read more', 'Data &amp; Tools', 'Caf\u00e9'])
        var = lambda t: rng.choice([t, t.upper(), t.lower(), t.title()])  # noqa
        k = rng.randint(2, 4)
        a_links = ['<a href="/t/%d">%s</a>' % (i, var(base)) for i in range(k)]
        b_links = []
        for i, l in enumerate(a_links):
            r = rng.random()
            b_links.append(l if r < 0.4 else '<a href="/t/%d">%s</a>' % (i + (10 if r < 0.8 else 0), var(base)))
        pairs.append((' '.join(a_links), ' '.join(b_links)))
    n_obs = n_corr = 0
    lines, wanted = [], []
    dist = {'entries': 0, 'changed_entries': 0, 'hostile_texts': 0, 'pairs': len(pairs)}
    envs = [{}] if tier == 'quick' else [{}, {'DIFFER_COLOR_INSERTION': '#00ff00', 'DIFFER_COLOR_DELETION': 'rgb(255, 0, 0)'}]
    for env in envs:
        saved = {k: os.environ.get(k) for k in ('DIFFER_COLOR_INSERTION', 'DIFFER_COLOR_DELETION')}
        os.environ.update(env)
        try:
            for a, b in pairs:
                try:
                    res = m.links_diff_html(a, b)
                    js = m.links_diff_json(a, b)
                    js['diff'] = list(js['diff'])
                except Exception as e:  # noqa
                    rep.violation('c10-crash', {'what': 'links differ raised %s: %s' % (type(e).__name__, e), 'a_text': a, 'b_text': b})
                    continue
                rep.count((a, b, tuple(env.items())), a != b)
                dist['entries'] += len(js['diff'])
                dist['changed_entries'] += sum(1 for c, _ in js['diff'] if c == 100)
                dist['hostile_texts'] += sum(1 for c, l in js['diff'] if c != 100 and ('<' in l['text'] or '"' in l['href'] or '<' in l['href']))
                fails = observe(a, b, res, js)
                if fails:
                    n_obs += 1
                    if n_obs <= 3:
                        rep.violation('c10-view-%d' % n_obs, {'what': fails[:4], 'a_text': a, 'b_text': b, 'call': 'links_diff_html(a_text, b_text)'})
                b_soup = html5_parser.parse(b, treebuilder='soup', return_root=False)
                import render_lib
                title = render_lib.page_title(b_soup)
                lines.append(model_line(js, title, get_color_palette()))
                wanted.append((a, b, res['diff']))
        finally:
            for k, v in saved.items():
                if v is None:
                    os.environ.pop(k, None)
                else:
                    os.environ[k] = v
    rep.obligation('observer c10: rows = entries, texts/targets shown as text and as link target, title as text, scaffold only, on %d page pairs' % len(wanted), n_obs == 0)
    if ctx['model_available']:
        model = run_driver(lines)
        for (a, b, want), got in zip(wanted, model):
            got_s = to_str(got) if not isinstance(got, tuple) else None
            if got_s != want:
                n_corr += 1
                if n_corr <= 2:
                    k = next((i for i, (x, y) in enumerate(zip(got_s or '', want)) if x != y), min(len(got_s or ''), len(want)))
                    rep.violation('c10-correspondence-%d' % n_corr, {
                        'what': 'model links_html and links_diff_html differ at offset %d' % k,
                        'correspondence': 'Model/LinksHtml.v links_html (entries from links_diff_json) vs links_diff_html(...)["diff"]',
                        'model_around': (got_s or '')[max(0, k - 60):k + 60], 'implementation_around': want[max(0, k - 60):k + 60],
                        'a_text': a, 'b_text': b}, no_input=(n_obs == 0))
        rep.obligation('correspondence c10: model links_html = links_diff_html string, char for char, on %d documents' % len(wanted), n_corr == 0)
        # the tokenizer used as reading-back specification, against html5-parser on the same strings (validation of the spec)
        sub = wanted[::7][:200]
        toks = run_driver(['html_lex %s' % S(w) for _, _, w in sub])
        bad = 0
        for (a, b, w), t in zip(sub, toks):
            names_model = [to_str(x[1]) for x in t if x[0] in (2, 3)]
            soup = html5_parser.parse(w, treebuilder='soup', return_root=False)
            names_parser = [e.name for e in soup.find_all(True) if e.name != 'colgroup']   # implied by the parser around <col>
            text_model = ''.join(to_str(x[1]) for x in t if x[0] == 0)
            text_parser = squash(soup.get_text())
            if names_model != names_parser or squash(htmllib.unescape(text_model)) != text_parser:
                bad += 1
                if bad <= 1:
                    rep.violation('c10-lexer-spec', {'what': 'the model tokenizer and html5-parser read the returned HTML differently', 'html': w[:2000],
                                                     'model_elements': names_model[:40], 'parser_elements': names_parser[:40]}, no_input=True)
        rep.obligation('validation c10: the tokenizer specification reads the returned HTML like html5-parser (element sequence and text) on %d documents' % len(sub), bad == 0)
    rep.extra['input_distribution'] = dist
    rep.sample({'a_text': pairs[0][0], 'b_text': pairs[0][1]})
    rep.trusted += ['modelled rather than verified: BeautifulSoup prettify()/formatter "minimal" (re-modelled in Model/LinksHtml.v and tied char for char), '
                    'html5-parser building the empty page template, links_diff itself (C04), the dmp diffs inside changed entries (C05 contract)',
                    'the HTML tokenizer used to state the reading-back theorem is a specification written for this model (validated per run against html5-parser)']
    rep.rule = ('generated page pairs whose link texts, image alts, tooltips, targets and titles are drawn from a hostile list (tags, entities, both quote kinds, '
                'attribute break-outs, table/title/style close tags, whitespace) mixed with ordinary ones; edits: retargeted, extended, dropped, added links; '
                'non-trivial = pages differ')


def replay(rep, data):
    import web_monitoring_diff.html_links_diff as m
    res = m.links_diff_html(data['a_text'], data['b_text'])
    js = m.links_diff_json(data['a_text'], data['b_text'])
    js['diff'] = list(js['diff'])
    f = observe(data['a_text'], data['b_text'], res, js)
    print(f)
    return 1 if f else 0

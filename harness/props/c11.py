"""C11 - content-type decision table: exhaustive class enumeration, model vs implementation."""
import itertools

from common import S, HEADERS, run_driver, to_str, to_opt, rng_for

ACCEPT = ['application/html', 'application/xhtml', 'application/xhtml+xml', 'application/xml',
          'application/xml+html', 'application/xml+xhtml', 'text/webviewhtml', 'text/html',
          'text/x-server-parsed-html', 'text/xhtml']
FALL = ['application/octet-stream', 'application/x-download', 'text/plain', 'text/csv', 'text/x-foo', 'text/a']
OTHER = ['image/jpeg', 'application/pdf', 'application/json', 'video/mp4', 'x/y', 'a0!#$&^_.+-/b0!#$&^_.+-',
         'application/xhtml+xm', 'texts/html', 'application/octet-streams']
MALFORMED = ['text', '/html', 'text/', 'te xt/html', 'text/html/x', 'text/h<ml', 'tëxt/html', '!text/html',
             'text/html,', '*/*', 'text/\n', 'Kext/html', 'text/İtml']
EMPTYISH = ['', ' ', ';', ' ; charset=utf-8']

SIGS = ['%PDF-', '%!PS-Adobe-', 'GIF87a', 'GIF89a', 'BM', '\u0089PNG\r\n\u001a\n', 'ÿØÿ']
NEAR = ['%PDF', 'GIF88a', 'B', 'gif89a', '%!PS-adobe-', '\u0089PNG\r\n', 'ÿØ', 'x%PDF-', '<!-- %PDF- -->']
HTMLS = ['<html><body>hi</body></html>', '<!doctype html><p>BM</p>', 'plain words only', '']
WS = ['', ' ', '\n', '\t', '\r\n', '\x0b\x0c', '\x1c\x1f', '\x85', '\xa0', ' 　', '​', '﻿']
OPTS = ['normal', 'nocheck', 'nosniff', 'ignore', 'NORMAL', '', 'other']


def case_variants(m):
    out = [m, m.upper(), m.title(), ''.join(c.upper() if i % 2 else c for i, c in enumerate(m))]
    seen = []
    for v in out:
        if v not in seen:
            seen.append(v)
    return seen


def decorations(v):
    return [v, v + '; charset=utf-8', '  ' + v + ' ', '\t' + v + '\t; x=y; z', v + ';', v + ' ;q="a;b"', v + '; name="Report, final.pdf"', v + ';profile="a,b";x=","']


def contents(tier):
    base = []
    for w in WS:
        for s in SIGS + (NEAR if tier == 'thorough' or w in ('', ' ', '\n') else NEAR[:3]):
            base.append(w + s + ' rest of the body')
    for h in HTMLS:
        for w in ('', ' \n'):
            base.append(w + h)
    return base


def header_sets(tier):
    """yields (label, headers, media-for-grouping or None)"""
    yield ('none', None, None)
    yield ('empty', {}, None)
    yield ('other-key-only', {'X-Other': 'text/html'}, None)
    yield ('lowercase-key', {'content-type': 'image/jpeg'}, None)
    for group, medias in (('accept', ACCEPT), ('fall', FALL), ('other', OTHER), ('malformed', MALFORMED),
                          ('emptyish', EMPTYISH)):
        for m in medias:
            for cv in case_variants(m):
                for d in decorations(cv):
                    yield (group, {'Content-Type': d}, (group, m))
                    if tier == 'thorough':
                        yield (group, {'Content-Type': d, 'Server': 'x'}, (group, m))


def spec_class(headers):
    """The documented table, written independently of both the model and the code."""
    import re
    if not headers:
        return 'absent'
    v = headers.get('Content-Type', '')
    m = v.split(';', 1)[0].strip().lower()
    if not m:
        return 'absent'
    if not re.fullmatch(r'[a-z0-9][a-z0-9!#$&^_.+-]*/[a-z0-9][a-z0-9!#$&^_.+-]*', m):
        return 'malformed'
    if m in ACCEPT:
        return 'html'
    if m in ('application/octet-stream', 'application/x-download') or (m.startswith('text/') and len(m) > 5):
        return 'fall'
    return 'other'


def spec_binary(text):
    t = text.lstrip()
    return any(t.startswith(s) for s in SIGS)


def spec_decision(text, headers, opt):
    c = spec_class(headers)
    b = spec_binary(text)
    if opt == 'normal':
        return False if c == 'html' else True if c == 'other' else b
    if opt == 'nocheck':
        return b
    if opt == 'nosniff':
        return c == 'other'
    return False


def run(rep, ctx):
    from web_monitoring_diff import content_type as ct
    from web_monitoring_diff.exceptions import UndiffableContentError
    tier = ctx['tier']
    rng = rng_for(ctx['seed'], 'c11')
    rep.rule = ('exhaustive enumeration of header class (absent/empty/other-key, every accepted type, fall-through types, '
                'other valid types, malformed values) x letter case (lower/upper/title/alternating) x decoration '
                '(bare, parameters, padding) x content class (each binary signature, near misses, HTML, text; each Python '
                'whitespace kind as prefix) x option; a case is non-trivial when it has a Content-Type header value or a '
                'binary-looking body, distinct by (header value, body, option)')
    rep.trusted += [
        'modelled rather than verified: Python re semantics of the three content-type patterns (hand-specialised matchers; '
        'pattern sources pinned by theorem C11_tables_are_documented; character classes generated from the live re module)',
        'str.lower modelled context-free (final-sigma rule of U+03A3 not modelled)',
    ]
    rep.assumptions += ['headers are None or a dict of str->str; texts are str (what the differs document)']

    # ---- single side: is_not_html, exhaustive over classes
    conts = contents(tier)
    hs = list(header_sets(tier))
    cases = []
    for (label, h, grp) in hs:
        # every header with a representative slice of contents x options; every content with representative headers
        cs = conts if (tier == 'thorough' or grp is None or rng.random() < 0.25) else \
            [conts[0], conts[4], conts[-4], conts[-1], rng.choice(conts)]
        for c in cs:
            for o in (OPTS if tier == 'thorough' or rng.random() < 0.3 else OPTS[:4]):
                cases.append((c, h, o, grp))
    # bodies that begin with a LOT of whitespace (beyond any plausible sniffing window: 512, 1024, 2048, 4096, 64 KB): the documented
    # rule strips all of it
    longws = [' ' * 507, ' ' * 509, '\n' * 1030, ' \t\r\n' * 520, '\r\n' * 2100, '\x0c ' * 4200, ' ' * 70000]
    reps = [None, {}, {'Content-Type': 'text/plain'}, {'Content-Type': 'text'}, {'Content-Type': 'application/octet-stream; x=y'},
            {'Content-Type': 'text/html'}, {'Content-Type': 'image/jpeg'}]
    for w in longws:
        for sig in SIGS + ['<html><body>hi</body></html>', 'plain words', NEAR[0]]:
            for h in reps:
                for o in OPTS[:4]:
                    cases.append((w + sig + ' rest', h, o, None))
    short = [i for i, (c, _, _, _) in enumerate(cases) if len(c) <= 9000]
    lines = ['is_not_html %s %s %s' % (S(cases[i][0]), HEADERS(cases[i][1]), S(cases[i][2])) for i in short]
    model = [None] * len(cases)
    if ctx['model_available']:
        for i, m in zip(short, run_driver(lines)):
            model[i] = m
    n_bad = 0
    groups = {}
    dist = {}
    for (c, h, o, grp), mres in zip(cases, model):
        try:
            impl = bool(ct.is_not_html(c, h, o))
        except Exception as e:  # noqa
            impl = 'EXC ' + type(e).__name__
        nontrivial = bool(h and h.get('Content-Type')) or spec_binary(c)
        rep.count((c, str(h), o), nontrivial)
        dist[(grp[0] if grp else 'nohdr')] = dist.get((grp[0] if grp else 'nohdr'), 0) + 1
        spec = spec_decision(c, h, o)
        if mres is not None and (isinstance(mres, tuple) or bool(mres) != spec):
            # the Coq model and the independent Python table disagree: machinery problem, not a violation by itself
            rep.obligation('model agrees with the independently written table', False, (c, h, o, mres, spec))
        expected = bool(mres) if isinstance(mres, int) else spec
        if impl != expected:
            n_bad += 1
            if n_bad <= 3:
                rep.violation('is_not_html-%d' % n_bad, {
                    'what': 'is_not_html decides differently from the documented table',
                    'call': 'web_monitoring_diff.content_type.is_not_html(text, headers, check_options)',
                    'text': c, 'headers': h, 'check_options': o,
                    'implementation': impl, 'documented_table_says': expected,
                    'header_class': spec_class(h), 'looks_binary': spec_binary(c)})
        if grp is not None:
            groups.setdefault((grp, c, o), set()).add(impl)
    rep.obligation('correspondence is_not_html: model = implementation on %d enumerated cases' % len(cases), n_bad == 0)
    rep.sample({'text': cases[7][0], 'headers': cases[7][1], 'option': cases[7][2]})
    rep.sample({'text': cases[-1][0], 'headers': cases[-1][1], 'option': cases[-1][2]})

    # ---- metamorphic observer directly on the implementation: case / parameters / padding never matter
    n_meta = 0
    for (grp, c, o), decisions in groups.items():
        if len(decisions) > 1 and grp[0] != 'emptyish':
            n_meta += 1
            if n_meta <= 2:
                rep.violation('case-or-params-matter-%d' % n_meta, {
                    'what': 'decision depends on letter case / parameters / padding of the media type',
                    'media_type': grp[1], 'text': c, 'check_options': o,
                    'decisions_seen': sorted(map(str, decisions)),
                    'variants': [d for cv in case_variants(grp[1]) for d in decorations(cv)]})
    rep.obligation('observer: decision invariant under case/parameters/padding (%d groups)' % len(groups), n_meta == 0)

    # ---- both sides: raise_if_not_diffable_html and the two differ entry points
    reps_h = [None, {'Content-Type': 'text/html'}, {'Content-Type': 'IMAGE/JPEG; q=1'}, {'Content-Type': 'text/plain'},
              {'Content-Type': 'bogus'}]
    reps_c = ['<p>x</p>', ' \n%PDF-1.4', 'GIF89a...']
    pair_cases = list(itertools.product(reps_c, reps_c, reps_h, reps_h, OPTS[:4]))
    lines = ['raise_if_not_diffable_html %s %s %s %s %s' % (S(a), S(b), HEADERS(ha), HEADERS(hb), S(o))
             for (a, b, ha, hb, o) in pair_cases]
    model = run_driver(lines) if ctx['model_available'] else [None] * len(pair_cases)

    def impl_msg(fn, *a):
        try:
            fn(*a)
            return None
        except UndiffableContentError as e:
            return str(e)
        except Exception as e:  # noqa
            return 'EXC ' + type(e).__name__ + ': ' + str(e)[:100]

    from web_monitoring_diff import html_render_diff, html_links_diff
    n_bad = 0
    n_entry = 0
    for idx, ((a, b, ha, hb, o), mres) in enumerate(zip(pair_cases, model)):
        got = impl_msg(ct.raise_if_not_diffable_html, a, b, ha, hb, o)
        ea, eb = spec_decision(a, ha, o), spec_decision(b, hb, o)
        spec = ('`a` and `b` are not HTML documents' if ea and eb else '`a` is not an HTML document' if ea
                else '`b` is not an HTML document' if eb else None)
        exp = to_opt(mres, to_str) if isinstance(mres, list) else spec
        rep.count(('pair', a, b, str(ha), str(hb), o), ea or eb)
        if got != exp:
            n_bad += 1
            if n_bad <= 2:
                rep.violation('sides-%d' % n_bad, {
                    'what': 'raise_if_not_diffable_html refuses / names sides differently from the documented table',
                    'a_text': a, 'b_text': b, 'a_headers': ha, 'b_headers': hb, 'content_type_options': o,
                    'implementation': got, 'documented_table_says': exp})
        # the two differs must decide identically (sampled: they parse and diff, which is slow)
        if idx % (1 if ctx['tier'] == 'thorough' else 7) == 0:
            r1 = impl_msg(lambda *x: html_render_diff.html_diff_render(*x[:4], content_type_options=x[4]), a, b, ha, hb, o)
            r2 = impl_msg(lambda *x: html_links_diff.links_diff_json(*x), a, b, ha, hb, o)
            rep.count(('entry', a, b, str(ha), str(hb), o), ea or eb)
            if r1 != exp or r2 != exp:
                n_entry += 1
                if n_entry <= 2:
                    rep.violation('entry-points-%d' % n_entry, {
                        'what': 'html_diff_render / links_diff_json do not apply the documented decision identically',
                        'a_text': a, 'b_text': b, 'a_headers': ha, 'b_headers': hb, 'content_type_options': o,
                        'html_diff_render': r1, 'links_diff_json': r2, 'documented_table_says': exp})
    rep.obligation('correspondence raise_if_not_diffable_html on %d side combinations' % len(pair_cases), n_bad == 0)
    rep.obligation('observer: render and links differs refuse identically with the documented message', n_entry == 0)
    rep.extra['input_distribution'] = dist
    rep.extra['exhaustive'] = True


def replay(rep, data):
    from web_monitoring_diff import content_type as ct
    if 'check_options' in data and 'text' in data and 'headers' in data:
        got = ct.is_not_html(data['text'], data['headers'], data['check_options'])
        print('is_not_html ->', got, ' documented table says', data.get('documented_table_says'))
        return 0 if bool(got) == bool(data.get('documented_table_says')) else 1
    print(data)
    return 1

"""C12 - decoding: every codec label x placement x body class; model vs _extract_encoding/_decode_body; HTTP mapping."""
import codecs
import re

from common import S, L, P, B, OPT, run_driver, to_str, rng_for
import server_cases as sc

# pinned copies of the documented patterns and bounds (the model's oracles)
META = re.compile(b'<meta[^>]+charset\\s*=\\s*[\'"]?([^>]*?)[ /;\'">]', re.IGNORECASE)
PROLOG = re.compile(b'<?xml\\s[^>]*encoding=[\'"]([^\'"]+)[\'"].*\\?>', re.IGNORECASE)
SNIFF_BYTES = 2048
DETECT_BYTES = 18432

ODD_LABELS = ['hex', 'base64', 'bz2', 'zlib', 'rot13', 'rot_13', 'uu', 'quopri', 'undefined', 'idna', 'punycode', 'unicode_escape',
              'raw_unicode_escape', 'utf-7', 'mbcs', 'oem', 'utf_8_sig', 'utf-16', 'utf-32', 'UTF-8', 'Utf8', 'latin1', 'ISO-8859-1',
              'iso-8559-1', 'windows-1252', 'cp1252', 'ascii', 'us-ascii', 'koi8-r', 'shift_jis', 'big5', 'gb2312', 'euc-kr',
              'x-user-defined', 'none', 'null', 'binary', '8bit', 'utf-8;', '"utf-8"', "'utf-8'", 'utf 8', 'utf-8 ', ' utf-8', 'utf-8\x00',
              'charset', 'utf-8, iso-8859-1', 'ütf-8', 'string_escape', 'hex_codec', 'base64_codec', 'rot13\n', '\t', 'x' * 300]


def all_codec_names():
    import encodings
    import encodings.aliases
    import pkgutil
    names = set(encodings.aliases.aliases.keys()) | set(encodings.aliases.aliases.values())
    for m in pkgutil.iter_modules(encodings.__path__):
        names.add(m.name)
    return sorted(names)


def bodies():
    text = 'Héllo wörld ☃ — some more text to make the body longer. '
    return [
        ('empty', b''),
        ('ascii', b'<html><body>plain ascii body</body></html>'),
        ('utf8', ('<p>' + text * 3 + '</p>').encode('utf-8')),
        ('latin1', ('<p>' + 'café naïve résumé ' * 5 + '</p>').encode('latin-1')),
        ('utf16bom', ('<p>' + text + '</p>').encode('utf-16')),
        ('utf16le', ('<p>' + text + '</p>').encode('utf-16-le')),
        ('binary', bytes(range(256)) * 3),
        ('nuls', b'abc\x00def\x00\x00ghi'),
        ('mostly-bad', b'\xff\xfe\xfd' * 30 + b'ok'),
        ('quarter-bad', b'\xff' * 25 + b'a' * 75),
        ('just-over-quarter-bad', b'\xff' * 26 + b'a' * 74),
        ('base64ish', b'aGVsbG8gd29ybGQ='),
        ('hexish', b'68656c6c6f'),
        # no 0x00 byte, but some codecs spell U+0000 with these sequences
        ('escaped-nul', b'<p>x +AAA- y \\x00 z \\u0000 w \\0 v \\U00000000 u</p>'),
    ]


def placements(label, body):
    """(headers, body bytes) with the label in the header / meta / prolog, plus conflicts and distance variants."""
    lb = label.encode('utf-8', 'replace')
    out = [
        ('header', {'Content-Type': 'text/html; charset=%s' % label}, body),
        ('header-upper', {'Content-Type': 'TEXT/HTML; CHARSET=%s' % label}, body),
        ('header-then-parameter', {'Content-Type': 'text/html; charset=%s; boundary=x' % label}, body),
        ('header-then-parameters', {'Content-Type': 'text/html;charset=%s ;q=0.9;level=1' % label}, b'<meta charset="koi8-r">' + body),
        ('header-after-parameter', {'Content-Type': 'text/html; level=1; charset=%s' % label}, body),
        ('meta', {'Content-Type': 'text/html'}, b'<html><head><meta charset="' + lb + b'"></head>' + body),
        ('meta-http-equiv', {}, b'<meta http-equiv="Content-Type" content="text/html; charset=' + lb + b'">' + body),
        ('prolog', {'Content-Type': 'application/xhtml+xml'}, b'<?xml version="1.0" encoding="' + lb + b'"?>' + body),
        ('meta-late-2040', {}, b' ' * 2020 + b'<meta charset="' + lb + b'">' + body),
        ('meta-beyond-2k', {}, b' ' * 2100 + b'<meta charset="' + lb + b'">' + body),
        ('header-vs-meta', {'Content-Type': 'text/html; charset=%s' % label}, b'<meta charset="koi8-r">' + body),
        ('meta-vs-prolog', {}, b'<?xml version="1.0" encoding="koi8-r"?><meta charset="' + lb + b'">' + body),
        ('header-empty-then-meta', {'Content-Type': 'text/html; charset='}, b'<meta charset="' + lb + b'">' + body),
        ('no-label', {'Content-Type': 'text/plain'}, body),
        ('no-headers', {}, body),
    ]
    return out


def oracle_tables(headers, body):
    """Results of the external components for this input, computed from pinned patterns (not from the server module)."""
    import cchardet
    m = META.search(body, endpos=SNIFF_BYTES)
    meta = m.group(1).decode('ascii', errors='ignore') if m else None
    p = PROLOG.search(body, endpos=SNIFF_BYTES)
    prolog = p.group(1).decode('ascii', errors='ignore') if p else None
    det = None
    if body:
        d = cchardet.detect(body[:DETECT_BYTES])
        det = d.get('encoding') if d else None
    ct = ''
    for k, v in headers.items():
        if k.lower() == 'content-type':
            ct = v.lower()
    cands = {'utf-8', 'iso-8859-1', 'windows-1252', 'iso-8559-1'}
    if 'charset=' in ct:
        cands.add(ct.split('charset=')[-1].split(';')[0].strip())
    for x in (meta, prolog):
        if x:
            cands.add(x.strip())
    if det:
        cands.add(det.lower())
    known, dec = [], []
    for c in sorted(cands):
        try:
            codecs.lookup(c)
            k = True
        except (LookupError, ValueError, TypeError):
            k = False
        known.append((c, k))
        if k:
            try:
                dec.append((c, body.decode(c, errors='replace')))
            except (LookupError, UnicodeError):
                dec.append((c, None))
    return meta, prolog, det, known, dec


def ref_encoding(headers, body):
    """The documented precedence, written independently: header, meta (first 2 KB), prolog (first 2 KB), detection, UTF-8."""
    meta, prolog, det, known, _ = oracle_tables(headers, body)
    ct = ''
    for k, v in headers.items():
        if k.lower() == 'content-type':
            ct = v.lower()
    label = None
    if 'charset=' in ct:
        label = ct.split('charset=')[-1].split(';')[0]        # a media type parameter ends at the next ';'
    label = label or meta or prolog
    label = label.strip() if label else label
    if not label and body and det:
        label = det.lower()
    if label == 'iso-8559-1':
        label = 'iso-8859-1'
    if label == 'iso-8859-1' and 'html' in ct:
        label = 'windows-1252'
    try:
        codecs.lookup(label)
    except (LookupError, ValueError, TypeError):
        label = 'utf-8'
    return label


def same_codec(a, b):
    try:
        return codecs.lookup(a).name == codecs.lookup(b).name
    except Exception:  # noqa
        return a == b


def run(rep, ctx):
    import web_monitoring_diff.server.server as df
    from web_monitoring_diff.exceptions import UndecodableContentError
    from tornado.httputil import HTTPHeaders
    tier = ctx['tier']
    rng = rng_for(ctx['seed'], 'c12')
    labels = list(ODD_LABELS)
    names = all_codec_names()
    if tier == 'quick':
        labels += names          # every codec the runtime knows, in the header placement at least
    else:
        labels += names + [n.upper() for n in names] + [n.replace('_', '-') for n in names]
    rep.rule = ('every codec name and alias the runtime knows (%d) plus %d odd/garbled labels, placed in the Content-Type header, a meta tag, '
                'an XML prolog, beyond the 2 KB window, and in conflict with each other, x 14 body classes (empty, ASCII, UTF-8, Latin-1, '
                'UTF-16 with/without BOM, binary, NULs, exactly 25%% and just over 25%% undecodable); non-trivial = the input carries a label; '
                'distinct by (headers, body)' % (len(names), len(ODD_LABELS)))
    rep.trusted += ['modelled rather than verified (oracles, values computed per input by the harness from pinned copies of the documented '
                    'patterns and bounds): META_TAG_PATTERN/XML_PROLOG_PATTERN search in the first 2048 bytes, cchardet.detect on the first '
                    '18432 bytes, codecs.lookup, bytes.decode(errors=replace); hypothesis of C12_total: UTF-8 with replacement never raises',
                    'float comparison count/len > 0.25 modelled as 4*count > len (exact below 2^53 characters)']
    bs = bodies()
    cases = []
    for i, label in enumerate(labels):
        bsel = bs if (tier == 'thorough' or label in ODD_LABELS[:16]) else [bs[i % len(bs)], bs[(i * 7 + 3) % len(bs)]]
        for bname, body in bsel:
            pl = placements(label, body)
            psel = pl if (tier == 'thorough' or label in ODD_LABELS) else [pl[0], pl[(i % (len(pl) - 1)) + 1]]
            for pname, headers, full in psel:
                cases.append((label, bname, pname, headers, full))
    lines = []
    tables = []
    for (label, bname, pname, headers, full) in cases:
        meta, prolog, det, known, dec = oracle_tables(headers, full)
        tables.append((meta, prolog, det))
        base = '%s %s %s %s %s %s' % (sc.DICT(headers), S(full), OPT(meta, S), OPT(prolog, S), OPT(det, S),
                                      L(P(S(k), B(v)) for k, v in known))
        decs = L(P(S(k), OPT(v, S)) for k, v in dec)
        lines.append('extract_encoding ' + base)
        lines.append('decode_body %s %s 1' % (base, decs))
        lines.append('decode_body %s %s 0' % (base, decs))
    model = run_driver(lines) if ctx['model_available'] else [None] * len(lines)
    n_tot = n_prec = n_corr = 0
    dist = {}
    for i, (label, bname, pname, headers, full) in enumerate(cases):
        h = HTTPHeaders(headers)
        rep.count((label, bname, pname), pname not in ('no-label', 'no-headers'))
        dist[pname] = dist.get(pname, 0) + 1
        # --- implementation
        try:
            enc = df._extract_encoding(h, full)
        except Exception as e:  # noqa
            enc = 'EXC %s' % type(e).__name__
        outs = []
        for rib in (True, False):
            try:
                t = df._decode_body(sc.FakeResp(h, full), 'a', raise_if_binary=rib)
                outs.append(('text', t))
            except UndecodableContentError as e:
                outs.append(('undecodable', str(e)))
            except Exception as e:  # noqa
                outs.append(('EXC', '%s: %s' % (type(e).__name__, e)))
        # --- observer: totality, NUL-freedom, precedence (from the property text)
        fails = []
        for rib, (kind, val) in zip((True, False), outs):
            if kind == 'EXC':
                fails.append('_decode_body(raise_if_binary=%s) failed with %s instead of text / undecodable' % (rib, val))
            elif kind == 'text' and (not isinstance(val, str) or '\x00' in val):
                fails.append('_decode_body returned text containing NUL')
            elif kind == 'undecodable' and not rib:
                fails.append('undecodable reported although decoding errors were to be ignored')
        if fails:
            n_tot += 1
            if n_tot <= 3:
                rep.violation('totality-%d' % n_tot, {'what': fails, 'label': label, 'placement': pname, 'body_class': bname,
                                                      'headers': headers, 'body_latin1': full.decode('latin1')[:300],
                                                      'call': '_decode_body(response, "a", raise_if_binary=...)'})
        ref = ref_encoding(headers, full)
        if isinstance(enc, str) and not enc.startswith('EXC') and not same_codec(enc, ref):
            n_prec += 1
            if n_prec <= 3:
                rep.violation('precedence-%d' % n_prec, {
                    'what': 'charset %r chosen, the documented precedence (header, meta/prolog in first 2 KB, detection, UTF-8) gives %r' % (enc, ref),
                    'label': label, 'placement': pname, 'headers': headers, 'body_latin1': full.decode('latin1')[:2300]})
        # --- correspondence with the model
        if model[3 * i] is not None and not fails:
            m_enc = model[3 * i]
            mm = []
            if isinstance(m_enc, tuple) or to_str(m_enc) != enc:
                mm.append('extract_encoding impl=%r model=%r' % (enc, m_enc if isinstance(m_enc, tuple) else to_str(m_enc)))
            for k, (kind, val) in enumerate(outs):
                mv = model[3 * i + 1 + k]
                if isinstance(mv, tuple):
                    mm.append('model error %s' % (mv,))
                elif mv[0] == 0 and not (kind == 'text' and val == to_str(mv[1])):
                    mm.append('decode impl=%s model=text' % kind)
                elif mv[0] == 1 and kind != 'undecodable':
                    mm.append('decode impl=%s model=undecodable' % kind)
                elif mv[0] == 2:
                    mm.append('model: UTF-8 raised?')
            if mm and not (ref != enc and n_prec):
                n_corr += 1
                if n_corr <= 3:
                    rep.violation('correspondence-%d' % n_corr, {
                        'what': 'model and implementation disagree; observers see no failure on this input',
                        'correspondence': 'Model/Decode.v vs _extract_encoding/_decode_body', 'disagreements': mm,
                        'label': label, 'placement': pname, 'headers': headers, 'body_latin1': full.decode('latin1')[:300]},
                        no_input=True)
    rep.obligation('observer: _decode_body total and NUL-free on %d inputs' % len(cases), n_tot == 0)
    rep.obligation('observer: charset precedence as documented on %d inputs' % len(cases), n_prec == 0)
    rep.obligation('correspondence Model/Decode.v = implementation on %d inputs' % len(cases), n_corr == 0)
    rep.extra['placement_distribution'] = dist
    rep.sample({'label': cases[0][0], 'placement': cases[0][2], 'headers': cases[0][3], 'body_latin1': cases[0][4].decode('latin1')[:80]})
    rep.sample({'label': cases[-1][0], 'placement': cases[-1][2], 'headers': cases[-1][3], 'body_latin1': cases[-1][4].decode('latin1')[:80]})

    # ---- HTTP mapping: such pages are answered 200 or 422, never otherwise
    http_cases = []
    sel = ODD_LABELS[:20] + rng.sample(names, 25 if tier == 'quick' else 120)
    for label in sel:
        for bname, body in (bs[2], bs[6], bs[0]):
            up = {'http://site.test/a': sc.ok_up(body, 'text/html; charset=%s' % label),
                  'http://site.test/b': sc.ok_up(b'<meta charset="' + label.encode('utf-8', 'replace') + b'">' + body, 'text/html')}
            http_cases.append({'differ': 'html_source_dmp', 'raw_query': [('a', 'http://site.test/a'), ('b', 'http://site.test/b')],
                               'upstream': up, 'files': {}, 'differ_mode': 'real', 'label': label, 'body_class': bname})
    records = sc.run_cases(http_cases, False)
    n_http = 0
    for r in records:
        rep.count(('http', r['case']['label'], r['case']['body_class']))
        if r['obs'].status not in (200, 422):
            n_http += 1
            if n_http <= 2:
                rep.violation('http-%d' % n_http, {'what': 'a page declaring charset %r was answered %s, not 200/422' % (r['case']['label'], r['obs'].status),
                                                   'case': sc.describe(r['case']), 'response_json': r['obs'].json})
    rep.obligation('observer: HTTP status is 200 or 422 for %d declared charsets' % len(records), n_http == 0)


def replay(rep, data):
    print(data.get('what'))
    return 1

"""C13 - a supplied hash is binding: hash classes x sides x differs x extra parameters."""
import hashlib
import itertools

from common import rng_for
import server_cases as sc

BODIES = [sc.HTML_A, sc.HTML_B, b'', b'plain', 'café ☃'.encode('utf-8'), b'\x00\x01binary\xff']


def hash_variants(body):
    h = hashlib.sha256(body).hexdigest()
    other = hashlib.sha256(body + b'x').hexdigest()
    return [('absent', None), ('correct', h), ('wrong', other), ('wrong-case', h.upper()), ('truncated', h[:32]),
            ('empty', ''), ('padded', ' ' + h), ('prefix-match', h + '00')]


def observer(case, obs):
    fails = []
    params = {}
    for k, v in case['raw_query']:
        params[k] = v
    bad = []
    for side in ('a', 'b'):
        url = params[side]
        body = case['upstream'][url][3] if url in case['upstream'] else case['files'][url[7:]]
        supplied = params.get(side + '_hash')
        if supplied is not None and supplied != hashlib.sha256(body).hexdigest():
            bad.append((side, supplied, hashlib.sha256(body).hexdigest()))
    j = obs.json if isinstance(obs.json, dict) else {}
    if bad:
        if obs.status != 502:
            fails.append('hash of side(s) %s does not match but the response is %s, not 502' % ([b[0] for b in bad], obs.status))
        if 'diff' in j or 'change_count' in j:
            fails.append('response to a hash mismatch contains a diff')
        if obs.status == 502 and not (j.get('type') == 'HASH_MISMATCH' and
                                      any(j.get('expected_hash') == b[1] and j.get('actual_hash') == b[2] for b in bad)):
            fails.append('502 does not name the mismatch (type/expected_hash/actual_hash): %s' % j)
        if obs.differ_calls:
            fails.append('the differ ran although a supplied hash did not match')
    else:
        if obs.status != 200:
            if not (obs.status in (422, 500) and case.get('tolerate_differ_error')):
                fails.append('all supplied hashes match but the response is %s' % obs.status)
        elif len(obs.differ_calls) == 1:
            kw = obs.differ_calls[0][1]
            for side in ('a', 'b'):
                url = params[side]
                body = case['upstream'][url][3] if url in case['upstream'] else case['files'][url[7:]]
                if side + '_body' in kw and kw[side + '_body'] != body:
                    fails.append('the differ received %r as %s_body, not the hashed content' % (kw[side + '_body'], side))
                if side + '_text' in kw and case.get('plain_utf8') and kw[side + '_text'] != body.decode('utf-8'):
                    fails.append('the differ received %r as %s_text, not the hashed content' % (kw[side + '_text'][:80], side))
    return fails


MEMENTO = [('Memento-Datetime', 'Tue, 01 Jan 2019 00:00:00 GMT')]


def gen_cases(tier, rng):
    cases = []
    bodies = BODIES if tier == 'thorough' else BODIES[:4]
    differs = ['length', 'identical_bytes', 'html_source_dmp', 'html_text_dmp', 'side_by_side_text', 'links_json', 'html_token']
    extras = [[], [('a_body', 'zzz')], [('b_text', 'injected'), ('a_text', 'injected')], [('a_hash', 'first-value-is-ignored')],
              [('a_text', 'only-a')], [('b_body', '')], [('a_url', 'http://other/'), ('a_headers', 'h')]]
    # how each side is served: plain 200, archived error page (memento), local file
    serve_kinds = ['ok', 'memento', 'file']

    def add(differ, ba, bb, la, ha, lb, hb, ex, ka, kb):
        raw = list(ex)
        up, files = {}, {}
        for side, body, kind in (('a', ba, ka), ('b', bb, kb)):
            if kind == 'file':
                url = 'file:///data/%s' % side
                files['/data/%s' % side] = body
            else:
                url = ('http://site.test/%s' if side == 'a' else 'https://site.test/%s') % side
                if kind == 'ok':
                    up[url] = sc.ok_up(body, 'text/html; charset=utf-8')
                else:
                    up[url] = sc.ok_up(body, 'text/html; charset=utf-8', code=rng.choice([404, 500, 503]), extra=MEMENTO)
            raw.append((side, url))
        if ha is not None:
            raw.append(('a_hash', ha))
        if hb is not None:
            raw.append(('b_hash', hb))
        plain = all(b in (sc.HTML_A, sc.HTML_B, b'plain', b'') for b in (ba, bb))
        cases.append({'differ': differ, 'raw_query': raw, 'upstream': up, 'files': files, 'differ_mode': 'real',
                      'plain_utf8': plain, 'tolerate_differ_error': not plain, 'labels': (la, lb)})

    # 1. systematic: every differ x every injection x every serving kind, with correct hashes (a 200 must be the diff of the hashed content)
    for differ in differs:
        for ex in extras:
            for ka, kb in itertools.product(serve_kinds, serve_kinds):
                if tier == 'quick' and (ka, kb) not in (('ok', 'ok'), ('memento', 'file'), ('file', 'memento'), ('ok', 'memento')):
                    continue
                ba, bb = sc.HTML_A, sc.HTML_B
                add(differ, ba, bb, 'correct', hashlib.sha256(ba).hexdigest(), 'correct', hashlib.sha256(bb).hexdigest(), ex, ka, kb)
    # 2. every hash class on each side x serving kind
    for (ba, bb) in itertools.product(bodies, bodies[:3]):
        for (la, ha), (lb, hb) in itertools.product(hash_variants(ba), hash_variants(bb)):
            if tier == 'quick' and rng.random() > 0.3:
                continue
            differ = differs[rng.randrange(3)]
            ex = extras[rng.randrange(len(extras))]
            add(differ, ba, bb, la, ha, lb, hb, ex, rng.choice(serve_kinds), rng.choice(serve_kinds))
    # 2b. the same URL on both sides: each side's hash is checked on its own
    for (la, ha), (lb, hb) in itertools.product(hash_variants(sc.HTML_A), hash_variants(sc.HTML_A)):
        url = 'http://site.test/same'
        raw = [('a', url), ('b', url)] + ([('a_hash', ha)] if ha is not None else []) + ([('b_hash', hb)] if hb is not None else [])
        cases.append({'differ': differs[len(cases) % 3], 'raw_query': raw, 'upstream': {url: sc.ok_up(sc.HTML_A, 'text/html; charset=utf-8')}, 'files': {},
                      'differ_mode': 'real', 'plain_utf8': True, 'tolerate_differ_error': False, 'labels': ('same-url-' + la, lb)})
    # 3. each wrong-hash class on a memento response and on a file, exhaustively (small)
    for kind in serve_kinds:
        for (la, ha) in hash_variants(sc.HTML_A)[2:]:
            add('length', sc.HTML_A, sc.HTML_B, la, ha, 'absent', None, [], kind, 'ok')
            add('html_source_dmp', sc.HTML_B, sc.HTML_A, 'absent', None, la, ha, [], 'ok', kind)
    return cases


def undecodable_hash_pass(rep):
    """Hash parameters whose percent-escapes are not UTF-8 (observer only: the query is built by hand, the model's queries are
    text).  Whatever the service makes of such a value, it is not the digest of the content: no diff may come back."""
    import httpkit
    from urllib.parse import quote
    ua, ub = 'http://site.test/a', 'https://site.test/b'
    up = {ua: sc.ok_up(sc.HTML_A, 'text/html; charset=utf-8'), ub: sc.ok_up(sc.HTML_B, 'text/html; charset=utf-8')}
    bodies = {'a': sc.HTML_A, 'b': sc.HTML_B}
    kit = httpkit.Kit(differ_mode='real')
    n_bad = n = 0
    try:
        for side in ('a', 'b'):
            h = hashlib.sha256(bodies[side]).hexdigest()
            for form in (h + '%FF', h[:10] + '%E9' + h[10:], '%C3' + h, h + '%80', '%FF', h + '%C3%28', '%ED%A0%80' + h):
                for differ in ('html_source_dmp', 'length'):
                    path = '/%s?a=%s&b=%s&%s_hash=%s' % (differ, quote(ua, safe=''), quote(ub, safe=''), side, form)
                    obs = kit.request(path, headers={}, upstream=up, files={}, production=False, body=None)
                    n += 1
                    rep.count(('undecodable-hash', path), True)
                    j = obs.json if isinstance(obs.json, dict) else {}
                    if obs.status == 200 or 'diff' in j or 'change_count' in j or obs.differ_calls:
                        n_bad += 1
                        if n_bad <= 2:
                            rep.violation('undecodable-hash-%d' % n_bad, {'what': 'a hash parameter that is not the digest of the content (its percent-escapes are not UTF-8) '
                                          'was accepted: status %s, differ ran: %s' % (obs.status, bool(obs.differ_calls)), 'request': path, 'side': side})
    finally:
        kit.close()
    rep.obligation('observer: a hash parameter with bytes that are not UTF-8 never yields a diff (%d requests)' % n, n_bad == 0)


def run(rep, ctx):
    rng = rng_for(ctx['seed'], 'c13')
    undecodable_hash_pass(rep)
    rep.rule = ('bodies (HTML, empty, text, non-ASCII, binary) x hash class per side (absent, correct, wrong, wrong case, truncated, '
                'empty, padded, over-long) x differ x extra parameters (reserved-name injections, repeated a_hash) x http/file side; '
                'non-trivial = at least one hash supplied; distinct by (query, bodies)')
    rep.trusted += ['SHA-256 is an uninterpreted function in the theorems; the harness supplies hashlib digests as its graph',
                    'modelled rather than verified: Tornado argument parsing (last value of a repeated key)']
    cases = gen_cases(ctx['tier'], rng)
    records = sc.run_cases(cases, ctx['model_available'])
    dist = {}
    for r in records:
        c = r['case']
        rep.count((tuple(c['raw_query']), repr(sorted(c['upstream'].items()))), any(k.endswith('_hash') for k, _ in c['raw_query']))
        dist['/'.join(c['labels'])] = dist.get('/'.join(c['labels']), 0) + 1
    rep.extra['hash_class_distribution'] = dist
    rep.sample(sc.describe(cases[1]))
    rep.sample(sc.describe(cases[-1]))
    sc.report_records(rep, records, observer, 'hash-binding')


def replay(rep, data):
    print(data.get('what'))
    return 1

"""C14 - the render result always has the documented shape.

Observer on html_diff_render over well-formed pages and a malformed stream (tag soup, empty / whitespace-only input,
fragments, control characters, deep nesting, frameset pages for the key part), every include value, colours from the
environment: no exception other than the documented refusal, keys = counts + selected views, each view a complete
document that keeps head/body attributes of its base page, has exactly one more style#wm-diff-style and
script#wm-diff-script than the base page; combined: one more title meta whose content reconstructs both titles and
one template with the old head.  Correspondence: Model/RenderDoc.v render_view (assembly + str(soup)) against the
returned strings char for char, with the parsed pages and diff bodies converted from the live soups."""
import copy
import os
import re

import render_checks as rc
import render_lib as rl
from common import S, L, I, OPT, run_driver, to_str, rng_for, load_known_findings
from gen import htmlgen

KINDS = ['combined', 'insertions', 'deletions']
INCLUDES = ['all', 'combined', 'insertions', 'deletions', '', 'both', 'ALL', 'combined,insertions', 'none']

MALFORMED = [
    '<p>x <img srcset="a.png 1x, "> y</p>', '<p><img srcset="a.png 1x,, b.png 2x"></p>', '<img srcset=" "><img data-srcset=","><p>z</p>',
    '<p>Hello</p><title>Old body title</title>', '<p>Hello</p><title>New body title</title>', '<html><head></head><body><h1>x</h1><title>Body title three</title><p>y</p></body></html>',
    '<html><head><template><title>in template</title></template></head><body>hi</body></html>', '<body><template><title>T</title></template><p>x</p><title>late title</title></body>',
    '<html><head></head><body><svg><title>Icon</title><circle r="1"/></svg>hi</body></html>', '<html><head><title>Real</title></head><body><math><title>m</title></math><svg><title>Logo</title></svg>x</body></html>',
    '', ' ', '\n\t ', 'plain text only', '<', '>', '<<<>>>', '</p>', '<p', '<p><b><i>unclosed', '</div></div>text', '<table><tr><td>cell<p>para</table>after',
    '<b><p>misnested</b></p>', '<a href="x"><a href="y">nested</a></a>', '<select><option>a<option>b</select><optgroup>', '<title>only title</title>',
    '<head><title>T</title></head>', '<body class="only-body" onload="x()">b</body>', '<html lang="en" data-x="1"><p>x</html>', '<!doctype html>', '<!DOCTYPE html PUBLIC "-//W3C//DTD XHTML 1.0 Strict//EN" "http://www.w3.org/TR/xhtml1/DTD/xhtml1-strict.dtd"><html><body><p>xhtml</p></body></html>',
    '<!-- only a comment -->', '<p>a<!-- c -->b</p><!-- trailing -->', 'text \x01\x02 control \x7f chars \x0b\x0c', '<p>nul � repl</p>', '<svg><title>svg title</title><circle r="1"/></svg> text',
    '<math><mi>x</mi></math> y', '<template><p>in template</p></template><p>out</p>', '<noscript><p>ns</p></noscript> z', '<style>p{}</style><script>var x = "</p>";</script><p>after</p>',
    '<p>' * 40 + 'deep', '<div>' * 300 + 'very deep' + '</div>' * 300, '<b>' * 200 + 'bold' + '</b>' * 200, '<ul>' + '<li>x' * 50 + '</ul>', '<img src=x><br><hr><input><meta><link>',
    '<textarea><p>not markup</textarea><pre>\n  pre  text\n</pre>', '<title>A &amp; B &lt;x&gt; "q" \'s\'</title><p>t</p>', '<title></title><title>second</title><p>t</p>',
    '<html><head><meta charset="utf-8"><base href="/b/"><link rel="stylesheet" href="s.css"><style>h1{}</style><script src="a.js"></script></head><body id="b1" class="x y  z"><h1>T</h1></body></html>',
    '<style id="wm-diff-style">old chrome</style><script id="wm-diff-script">old()</script><p>a previously diffed page</p>',
    '<head><meta name="wm-diff-title" content="x"><template id="wm-diff-old-head"><title>o</title></template></head><p>again</p>',
    '﻿<p>bom</p>', '<p>emoji 😀 and astral 𝒜</p>', '<P CLASS=Upper>upper</P>', '<p title="a&quot;b" data-q=\'s"d\'>quotes</p>', '<a href="?a=1&b=2&amp;c=3">amp</a>',
]
# attribute names that look like parameters or attributes of the libraries underneath (a page may use any name)
ODD_ATTRS = ['name', 'string', 'attrs', 'class_', 'sourceline', 'sourcepos', 'parser', 'builder', 'namespace', 'prefix', 'parent', 'text', 'contents',
             'children', 'tag', 'self', 'cls', 'kwargs', 'markup', 'features', 'hidden', 'is_xml', 'id', 'style', 'element', 'el', 'soup', 'key', 'value']
for _i in range(0, len(ODD_ATTRS), 3):
    _a = ' '.join('%s="v%d"' % (n, k) for k, n in enumerate(ODD_ATTRS[_i:_i + 3]))
    MALFORMED.append('<html %s><head %s><title>t</title></head><body %s><p>page with odd attribute names</p></body></html>' % (_a, _a, _a))
    MALFORMED.append('<body %s><p %s>only the body carries them</p></body>' % (_a, _a))
KNOWN_INPUTS = [('<plaintext>everything after', '<plaintext>everything after', 'all'), ('<p>x</p>', '<plaintext>everything after', 'all')]
FRAMESETS = ['<html><head><title>F</title></head><frameset cols="50%,50%"><frame src="a.html"><frame src="b.html"></frameset></html>',
             '<frameset><frame src="a"></frameset><body>ignored</body>']


def parse_like_render(text):
    import html5_parser
    from bs4 import Comment
    import web_monitoring_diff.html_render_diff as h
    soup = html5_parser.parse(text.strip() or h.EMPTY_HTML, treebuilder='soup', return_root=False)
    for c in soup.find_all(string=lambda t: isinstance(t, Comment)):
        c.extract()
    return h._cleanup_document_structure(soup)


class OutOfDomain(Exception):
    pass


def enc_attrs(tag):
    return L([L([S(k), S(' '.join(v) if isinstance(v, (list, tuple)) else str(v))]) for k, v in tag.attrs.items()])


def enc_node(n):
    from bs4 import NavigableString, Tag
    from bs4.element import PreformattedString
    if isinstance(n, Tag):
        if n.prefix:
            raise OutOfDomain('namespace prefix')
        return L([I(1), S(n.name), enc_attrs(n), I(1 if n.is_empty_element else 0), L([enc_node(c) for c in n.children])])
    if isinstance(n, PreformattedString):
        raise OutOfDomain(type(n).__name__)
    return L([I(0), S(str(n))])


def enc_doc(soup):
    from bs4 import Tag, Doctype
    top = list(soup.contents)
    doctype = None
    if top and isinstance(top[0], Doctype):
        doctype = str(top[0])
        top = top[1:]
    if len(top) != 1 or not isinstance(top[0], Tag) or top[0].name != 'html':
        raise OutOfDomain('top level is not [doctype?, html]')
    html = top[0]
    kids = list(html.children)
    if [getattr(k, 'name', None) for k in kids] != ['head', 'body']:
        raise OutOfDomain('html children are %s' % [getattr(k, 'name', None) for k in kids])
    return L([OPT(doctype, S), enc_attrs(html), enc_attrs(kids[0]), L([enc_node(c) for c in kids[0].children]),
              enc_attrs(kids[1]), L([enc_node(c) for c in kids[1].children])])


def model_lines(a, b, include, url_rules='jsessionid'):
    """one driver line per selected view; mirrors the first steps of html_diff_render with the live functions"""
    import web_monitoring_diff.html_render_diff as h
    from web_monitoring_diff.utils import get_color_palette
    soup_old, soup_new = parse_like_render(a), parse_like_render(b)
    title_ops = h.compute_dmp_diff(h.get_title(soup_old), h.get_title(soup_new))
    old_doc, new_doc = None, None
    comparator = h.UrlRules.get_comparator(url_rules)
    # diff_elements unwraps ins/del in the bodies it is given: encode the pages afterwards, like the code sees them
    metadata, bodies = h.diff_elements(soup_old.body, soup_new.body, comparator, include)
    old_doc, new_doc = enc_doc(soup_old), enc_doc(soup_new)
    pal = get_color_palette()
    out = []
    # get_title is modelled too (doc_title): both pages' titles, model vs implementation
    out.append(('title-old', 'doc_title %s' % old_doc, h.get_title(soup_old)))
    out.append(('title-new', 'doc_title %s' % new_doc, h.get_title(soup_new)))
    for kind, body in bodies.items():
        out.append((kind, 'render_view %s %s %s %s %s %s %s' % (
            I(KINDS.index(kind)), old_doc, new_doc, L([L([I(c), S(t)]) for c, t in title_ops]), S(pal['differ_insertion']), S(pal['differ_deletion']),
            L([enc_node(c) for c in body.children]))))
    return out


def unmark(content):
    """both titles from the title diff, read as marked-up HTML like a consumer would (independent of the model);
    any element other than a plain change marker makes the reading fail"""
    import html5_parser
    from bs4 import NavigableString
    soup = html5_parser.parse('<!doctype html><html><body>%s</body></html>' % content, treebuilder='soup', return_root=False)
    old, new = [], []
    for c in soup.body.children:
        if isinstance(c, NavigableString):
            old.append(str(c))
            new.append(str(c))
        elif c.name in ('ins', 'del') and c.get('class') == ['wm-diff'] and not c.find(True):
            (old if c.name == 'del' else new).append(c.get_text())
        else:
            return ('<unexpected element %s>' % c.name,) * 2
    return ''.join(old), ''.join(new)


def ser_children(tag):
    return ''.join(str(c) for c in tag.children)


def count(soup, tag_name, **attrs):
    """matching elements that are live in the page, i.e. not inside the inert copy of the old head"""
    return len([e for e in soup.find_all(tag_name, attrs=attrs) if not e.find_parent('template', id='wm-diff-old-head')])


def shape_failures(a, b, include, result, structure=True):
    import html5_parser
    import web_monitoring_diff.html_render_diff as h
    fails = []
    want_keys = {'change_count', 'insertions_count', 'deletions_count'}
    sel = KINDS if include == 'all' else ([include] if include in KINDS else [])
    if set(result) != want_keys | set(sel):
        fails.append('keys %s, expected counts + %s' % (sorted(result), sel))
    for k in want_keys & set(result):
        if not isinstance(result[k], int) or result[k] < 0:
            fails.append('%s = %r' % (k, result[k]))
    if not structure:
        return fails
    old, new = parse_like_render(a), parse_like_render(b)
    for ins in old.body.find_all(['ins', 'del']) + new.body.find_all(['ins', 'del']):
        ins.unwrap()
    for kind in sel:
        if kind not in result:
            continue
        text = result[kind]
        if not isinstance(text, str):
            fails.append('%s view is %s' % (kind, type(text).__name__))
            continue
        base = old if kind == 'deletions' else new
        v = html5_parser.parse(text, treebuilder='soup', return_root=False)
        if not (v.html and v.head and v.body):
            fails.append('%s view is not a complete document' % kind)
            continue
        if dict(v.head.attrs) != dict(base.head.attrs):
            fails.append('%s view: head attributes %r, base page has %r' % (kind, dict(v.head.attrs), dict(base.head.attrs)))
        if dict(v.body.attrs) != dict(base.body.attrs):
            fails.append('%s view: body attributes %r, base page has %r' % (kind, dict(v.body.attrs), dict(base.body.attrs)))
        if dict(v.html.attrs) != dict(base.html.attrs):
            fails.append('%s view: html attributes %r, base page has %r' % (kind, dict(v.html.attrs), dict(base.html.attrs)))
        for name, ident, where in (('style', 'wm-diff-style', 'head'), ('script', 'wm-diff-script', 'body')):
            got = count(v, name, id=ident)
            had = count(base, name, id=ident)
            if got != had + 1:
                fails.append('%s view: %d %s#%s elements, the base page had %d' % (kind, got, name, ident, had))
        n_meta = count(v, 'meta', name='wm-diff-title') - count(base, 'meta', name='wm-diff-title')
        n_tmpl = count(v, 'template', id='wm-diff-old-head') - count(base, 'template', id='wm-diff-old-head')
        if kind == 'combined':
            if n_meta != 1 or n_tmpl != 1:
                fails.append('combined view: %d title-diff metas and %d old-head templates added' % (n_meta, n_tmpl))
            else:
                # the added ones are the last LIVE ones: copies inside the inert old-head template come later in document order
                live = lambda e: not e.find_parent('template', id='wm-diff-old-head')   # noqa
                meta = [e for e in v.find_all('meta', attrs={'name': 'wm-diff-title'}) if live(e)][-1]
                got_old, got_new = unmark(meta.get('content', ''))
                import render_lib
                want = (render_lib.page_title(old), render_lib.page_title(new))
                if (got_old, got_new) != want:
                    fails.append('title diff %r reconstructs (%r, %r), titles are (%r, %r)' % (meta.get('content'), got_old, got_new, want[0], want[1]))
                tmpl = [e for e in v.find_all('template', id='wm-diff-old-head') if live(e)][-1]
                want = html5_parser.parse('<template>%s</template>' % ser_children(old.head), treebuilder='soup', return_root=False).find('template')
                if re.sub(r'\s+', ' ', ser_children(tmpl)) != re.sub(r'\s+', ' ', ser_children(want)):
                    fails.append('old-head template holds %r, old head is %r' % (ser_children(tmpl)[:200], ser_children(want)[:200]))
        elif n_meta or n_tmpl:
            fails.append('%s view has a title-diff meta / old-head template' % kind)
        # the head keeps the base page's own children, in order, before the added ones
        base_head = [str(c) for c in base.head.children]
        view_head = [str(c) for c in v.head.children]
        # compare on re-parsed base (serialisation round trip normalises both the same way)
        reparsed = html5_parser.parse(str(base), treebuilder='soup', return_root=False)
        base_head = [str(c) for c in reparsed.head.children]
        if view_head[:len(base_head)] != base_head:
            fails.append('%s view: the head does not start with the base page head children' % kind)
    return fails


def run(rep, ctx):
    import web_monitoring_diff.html_render_diff as h
    from web_monitoring_diff.exceptions import UndiffableContentError
    tier = ctx['tier']
    rng = rng_for(ctx['seed'], 'c14')
    n = 150 if tier == 'quick' else 3000
    docs = rc.documents(rng, n)
    mal = list(MALFORMED)
    pairs = [(a, b, True) for a, b in docs]
    for i, m in enumerate(mal):
        pairs.append((m, rng.choice(mal), True))
        pairs.append((rng.choice([d[0] for d in docs]), m, True))
        pairs.append((m, m, True))
    pairs += [(a, b, True) for a, b in rc.real_pages()[:6]]      # archived versions of real pages from the repository's fixtures
    # identical content under different attributes of html / head / body (each view keeps those of ITS base page), and the reverse
    same_content = '<p>same <b>content</b> on both sides</p><ul><li>x</li></ul>'
    pairs_forced = []
    for va, vb in (('<html lang="en"><head data-h="1"><title>t</title></head><body class="old" id="o">%s</body></html>',
                    '<html lang="fr"><head data-h="2"><title>t</title></head><body class="new" data-n="1">%s</body></html>'),
                   ('<body bgcolor="white">%s</body>', '<body>%s</body>'), ('<body>%s</body>', '<body onload="x()" class="a b">%s</body>')):
        pairs.append((va % same_content, vb % same_content, True))
        pairs.append((vb % same_content, va % same_content, True))
        pairs_forced += [(va % same_content, vb % same_content, True, inc) for inc in ('all', 'deletions', 'insertions', 'combined')]
    # pairs whose titles sit in unusual places, under the views that carry the title diff
    for ta, tb in (('<p>Hello</p><title>Old body title</title>', '<p>Hello</p><title>New body title</title>'),
                   ('<html><head><title>Head title</title></head><body><p>x</p></body></html>', '<html><head></head><body><h1>x</h1><title>Body title three</title><p>y</p></body></html>'),
                   ('<html><head></head><body><svg><title>Icon</title><circle r="1"/></svg>hi</body></html>', '<p>Hello</p><title>New body title</title>'),
                   ('<p>no title at all</p>', '<body><template><title>T</title></template><p>x</p><title>late title</title></body>')):
        pairs_forced += [(ta, tb, True, inc) for inc in ('all', 'combined')] + [(tb, ta, True, 'combined')]
    rediffed = [m for m in mal if 'wm-diff-' in m]
    for f in FRAMESETS:
        pairs += [(f, f, False), (f, '<p>x</p>', False), ('<p>x</p>', f, False)]
    forced = [(m, m2, True, inc) for m in rediffed for m2 in rediffed for inc in ('combined', 'all')] + pairs_forced
    crash = shape = 0
    refused = 0
    dist = {'well_formed_pairs': len(docs), 'malformed_pairs': len(pairs) - len(docs), 'includes': {}, 'refused': 0, 'out_of_model_domain': 0}
    corr = []
    envs = [None, {'DIFFER_COLOR_INSERTION': '#00ff00', 'DIFFER_COLOR_DELETION': 'rgb(255, 0, 0)'}, {'DIFFER_COLOR_INSERTION': 'red; } body { display: none', 'DIFFER_COLOR_DELETION': '"quoted" & <b>'}]
    work = [(a, b, structure, None) for a, b, structure in pairs] + forced
    for idx, (a, b, structure, forced_include) in enumerate(work):
        include = forced_include or (INCLUDES[idx % len(INCLUDES)] if idx % 3 else 'all')
        env = envs[idx % 7] if idx % 7 < len(envs) else None
        saved = {k: os.environ.get(k) for k in ('DIFFER_COLOR_INSERTION', 'DIFFER_COLOR_DELETION')}
        if env:
            os.environ.update(env)
        try:
            dist['includes'][include] = dist['includes'].get(include, 0) + 1
            rep.count((a, b, include, idx % 7), a != b)
            try:
                result = h.html_diff_render(a, b, include=include)
            except UndiffableContentError:
                dist['refused'] += 1
                continue
            except Exception as e:  # noqa
                crash += 1
                if crash <= 3:
                    rep.violation('c14-crash-%d' % crash, {'what': 'html_diff_render raised %s: %s' % (type(e).__name__, str(e)[:300]), 'a_text': a, 'b_text': b, 'include': include,
                                                          'env': env})
                continue
            fails = shape_failures(a, b, include, result, structure)
            if fails:
                shape += 1
                if shape <= 3:
                    rep.violation('c14-shape-%d' % shape, {'what': fails[:4], 'a_text': a, 'b_text': b, 'include': include, 'env': env,
                                                          'call': 'html_diff_render(a_text, b_text, include=%r)' % include})
            if ctx['model_available'] and structure and (idx % 2 == 0 or idx >= len(docs)):
                try:
                    for item in model_lines(a, b, include):
                        kind, line = item[0], item[1]
                        corr.append((a, b, include, kind, line, item[2] if len(item) == 3 else result.get(kind), env))
                except OutOfDomain:
                    dist['out_of_model_domain'] += 1
                except Exception as e:  # noqa  (the mirror of the first steps failed although the real call did not)
                    dist.setdefault('mirror_errors', []).append('%s: %s' % (type(e).__name__, str(e)[:100]))
        finally:
            for k, v in saved.items():
                if v is None:
                    os.environ.pop(k, None)
                else:
                    os.environ[k] = v
    # ---- listed known findings: replayed every run, reported while they still fail
    for kf in load_known_findings('C14'):
        inp = dict(kf['input'])
        if 'a_text_escaped' in inp:          # code points a JSON file in UTF-8 cannot hold (lone surrogates) are kept as Python escapes
            inp['a_text'] = inp['a_text_escaped'].encode('ascii').decode('unicode_escape')
        try:
            r = h.html_diff_render(inp['a_text'], inp['b_text'], include=inp['include'])
            f = shape_failures(inp['a_text'], inp['b_text'], inp['include'], r)
        except Exception as e:  # noqa
            f = ['raised %s' % type(e).__name__]
        rep.count(('known', kf['id']), True)
        if f:
            rep.known_finding(kf['what'])
        else:
            rep.extra.setdefault('known_findings_no_longer_failing', []).append(kf['id'])
    rep.obligation('observer c14: no exception other than the documented refusal on %d calls (%d refused as not HTML)' % (len(work), dist['refused']), crash == 0)
    rep.obligation('observer c14: keys, complete documents, kept head/body/html attributes, one style + one script, title diff and old head in the combined view', shape == 0)
    # explicit refusal path and include validation
    n_ref = 0
    for hdr in ({'Content-Type': 'image/png'}, {'Content-Type': 'application/pdf'}):
        try:
            h.html_diff_render('<p>a</p>', '<p>b</p>', a_headers=hdr, b_headers=hdr)
            n_ref += 1
        except UndiffableContentError:
            pass
        except Exception:  # noqa
            n_ref += 1
        rep.count(('refusal', str(hdr)), True)
    rep.obligation('observer c14: non-HTML content is refused with UndiffableContentError, nothing else', n_ref == 0)
    if ctx['model_available']:
        model = run_driver([c[4] for c in corr])
        bad = 0
        for (a, b, include, kind, line, want, env), got in zip(corr, model):
            got_s = to_str(got) if not isinstance(got, tuple) else None
            if got_s != want:
                bad += 1
                if bad <= 2:
                    w = want or ''
                    k = next((i for i, (x, y) in enumerate(zip(got_s or '', w)) if x != y), min(len(got_s or ''), len(w)))
                    rep.violation('c14-correspondence-%d' % bad, {
                        'what': 'model render_view and html_diff_render differ in the %s view at offset %d' % (kind, k),
                        'correspondence': 'Model/RenderDoc.v render_view (pages and diff body converted from the live soups) vs html_diff_render(...)[kind]',
                        'model_around': (got_s or repr(got))[max(0, k - 80):k + 80], 'implementation_around': w[max(0, k - 80):k + 80],
                        'a_text': a, 'b_text': b, 'include': include, 'env': env}, no_input=(shape == 0 and crash == 0))
        rep.obligation('correspondence c14: model render_view = returned view string, char for char, on %d views' % len(corr), bad == 0 and len(corr) > 0)
        rep.obligation('correspondence c14: the harness mirror of the first steps of html_diff_render never failed', not dist.get('mirror_errors'))
        sel = run_driver(['selected_views %s' % S(i) for i in INCLUDES])
        ok = all([to_str(x) for x in m] == (KINDS if i == 'all' else ([i] if i in KINDS else [])) for i, m in zip(INCLUDES, sel))
        rep.obligation('correspondence c14: model selected(include) = views returned for %d include values' % len(INCLUDES), ok)
    rep.extra['input_distribution'] = dist
    rep.sample({'a_text': pairs[0][0][:300], 'b_text': pairs[0][1][:300]})
    rep.trusted += ['modelled rather than verified: html5-parser, BeautifulSoup copy/new_tag/replace_with/wrap and str() (decode re-modelled in Model/RenderDoc.v, tied char for char), '
                    'diff_elements (C01-C03) whose parsed output is an input of the assembly model, the dmp title diff (C05 contract)',
                    '"never crashes for any two strings" concerns the C parsers and the interpreter stack: covered by the malformed-input stream only (exploration), not by a theorem']
    rep.rule = ('generated well-formed page pairs plus a malformed stream (empty, whitespace, bare text, broken tags, misnesting, tables, select, templates, svg/math, '
                'raw-text elements, control characters, BOM, astral characters, 300-level nesting, previously diffed pages, XHTML doctype) in all positions; frameset pages '
                'for the no-crash/keys part; include cycles through %s; colours from the environment incl. hostile values; non-trivial = inputs differ' % INCLUDES)


def replay(rep, data):
    import web_monitoring_diff.html_render_diff as h
    env = data.get('env') or {}
    os.environ.update(env)
    r = h.html_diff_render(data['a_text'], data['b_text'], include=data.get('include', 'all'))
    f = shape_failures(data['a_text'], data['b_text'], data.get('include', 'all'), r)
    print(f)
    return 1 if f else 0

"""C15 - change markers never enclose block-level structure.

Besides the document-level observer (no block-level element inside ins/del.wm-diff in any parsed view) this module runs the
tree-level theorems' instances: for generated page pairs the extracted model reports whether each page is admissible
(Proofs/NestingProofs.v page_ok), whether its chunk stream is well nested (balc) and whether the single-sided views nest
(nest).  The implications page_ok => balc => nest are theorems (C15_admissible_pages_are_well_nested,
C15_tree_level_single_sided); evaluating them is a run of the theorems' instances, not their proof.  For admissible pages the
residue of the document-level sentence is 'html5-parser reads a well-nested stream the way a stack parser does': that
contract is validated here by parsing the implementation's view string both ways and comparing the element trees."""
import re

import render_checks as rc
import render_lib as rl
from common import run_driver, rng_for, I
from props.render_common import run_render


def obs(a, b, r):
    return rc.c15_failures(r)


def stack_tree(s, void, opaque):
    """The element tree a stack parser builds from a well-nested tag stream; None if the stream is not well nested.
    Opaque elements (raw text / undiffable content / iframe) are leaves."""
    root = ('#root', [])
    stack = [root]
    i = 0
    while True:
        j = s.find('<', i)
        if j < 0:
            break
        m = re.match(r'<(/?)([A-Za-z][^\s/>]*)', s[j:])
        if not m:
            i = j + 1
            continue
        name = m.group(2).lower()
        k = s.find('>', j)
        if k < 0:
            return None
        if name in ('html', 'head', 'body'):     # ignored inside a body, by the model's reading and by the HTML parser alike
            i = k + 1
            continue
        if m.group(1):
            if stack[-1][0] != name:
                return None
            stack.pop()
            i = k + 1
            continue
        node = (name, [])
        stack[-1][1].append(node)
        if name in opaque:
            # positions are taken in s itself (str.lower() can change the length: 'İ'), matching is case-insensitive
            if name in ('script', 'style', 'textarea', 'iframe', 'xmp', 'noembed', 'noframes', 'title'):
                mm = re.compile('</%s>' % re.escape(name), re.I).search(s, k)          # raw text: the first end tag ends it
                e = mm.start() if mm else -1
            else:
                # an embedded graphic / template / list of options may contain elements of its own name: the matching end tag
                depth, e = 1, -1
                for mm in re.compile(r'<(/?)%s(?=[\s/>])' % re.escape(name), re.I).finditer(s, k + 1):
                    depth += -1 if mm.group(1) else 1
                    if depth == 0:
                        e = mm.start()
                        break
            i = (e + len(name) + 3) if e >= 0 else len(s)
            continue
        if name not in void:
            stack.append(node)
        i = k + 1
    return root[1] if len(stack) == 1 else None


def html5_tree(view, opaque):
    import html5_parser
    root = html5_parser.parse('<!doctype html><html><head></head><body>' + view + '</body></html>', treebuilder='lxml', return_root=True)
    body = root.find('body')

    def walk(el):
        out = []
        for c in el:
            if not isinstance(c.tag, str):
                continue
            name = c.tag.split('}')[-1].lower()
            out.append((name, [] if name in opaque else walk(c)))
        return out
    return walk(body) if body is not None else None


def marker_has_block(tree, inside=False):
    for name, kids in tree:
        if inside and name in rl.BLOCK_SPEC:
            return True
        if marker_has_block(kids, inside or name in ('ins', 'del')):
            return True
    return False


def nesting_pass(rep, ctx):
    import web_monitoring_diff.html_render_diff as h
    tier = ctx['tier']
    rng = rng_for(ctx['seed'], 'c15-nesting')
    docs = rc.documents(rng, 250 if tier == 'quick' else 4000)
    void = set(h.void_tags)
    opaque = (set(h.undiffable_content_tags) - {'img'}) | (set(h.empty_tags) - set(h.void_tags)) | {'title', 'noscript', 'noembed', 'noframes', 'xmp', 'plaintext'}
    frags, lines = [], []
    for a, b in docs:
        try:
            fa, fb = rl.fragments_of(a, b)
            line, ok = rl.model_htmldiff_line(fa, fb, None)
        except Exception:  # noqa
            continue
        if ok:
            frags.append((fa, fb))
            lines.append('nesting' + line[len('htmldiff'):])
    reports = run_driver(lines)
    stat = {'pairs': len(frags), 'pages_admissible': 0, 'pages_not_admissible': 0, 'streams_well_nested': 0, 'views_nested': 0,
            'views_compared_with_html5_parser': 0, 'html5_parser_tree_equals_stack_tree': 0, 'stack_parser_unreadable': 0}
    bad_instance = bad_contract = 0
    for (fa, fb), rpt in zip(frags, reports):
        rep.count(('nesting', fa, fb), fa != fb)
        if isinstance(rpt, tuple) or len(rpt) != 6:
            bad_instance += 1
            continue
        ok_old, ok_new, bal_old, bal_new, nest_del, nest_ins = [bool(x) for x in rpt]
        for ok, bal, nst in ((ok_old, bal_old, nest_del), (ok_new, bal_new, nest_ins)):
            stat['pages_admissible' if ok else 'pages_not_admissible'] += 1
            stat['streams_well_nested'] += bal
            stat['views_nested'] += nst
            if (ok and not bal) or (bal and not nst):       # would contradict a theorem: the extraction or the driver is broken
                bad_instance += 1
        try:
            meta, diffs = rl.impl_htmldiff(fa, fb, None)
        except Exception:  # noqa
            continue
        for key, adm in (('deletions', ok_old), ('insertions', ok_new)):
            if not adm:
                continue
            st = stack_tree(diffs[key], void, opaque)
            if st is None:
                stat['stack_parser_unreadable'] += 1
                bad_contract += 1
                if bad_contract <= 2:
                    rep.violation('c15-nesting-stream-%d' % bad_contract, {
                        'what': 'the %s view of an admissible page is not a well-nested tag stream, although the model proves it is' % key,
                        'old_fragment': fa, 'new_fragment': fb, 'view': diffs[key][:2000]}, no_input=True)
                continue
            t5 = html5_tree(diffs[key], opaque)
            stat['views_compared_with_html5_parser'] += 1
            if t5 == st:
                stat['html5_parser_tree_equals_stack_tree'] += 1
            else:
                # the contract of the oracle fails on this input: it is a violation only if the document-level sentence fails too
                if marker_has_block(t5 or []):
                    bad_contract += 1
                    if bad_contract <= 2:
                        rep.violation('c15-nesting-parse-%d' % bad_contract, {
                            'what': 'html5-parser reads the well-nested %s view differently from a stack parser and finds a block-level element inside a marker' % key,
                            'old_fragment': fa, 'new_fragment': fb, 'view': diffs[key][:2000]})
    rep.extra['tree_level'] = stat
    rep.obligation('theorem instances, run: page_ok => stream well nested => view nested, on %d page pairs through the extracted model' % len(frags), bad_instance == 0)
    rep.obligation('contract of the re-parse: the single-sided views of %d admissible pages are well-nested streams; where html5-parser reads one '
                   'differently from a stack parser no block-level element ends up inside a marker (%d of %d trees identical)' % (
                       stat['pages_admissible'], stat['html5_parser_tree_equals_stack_tree'], stat['views_compared_with_html5_parser']), bad_contract == 0)


def run(rep, ctx):
    run_render(rep, ctx, 'c15', [('no-block-in-marker', obs)], n_quick=600, n_thorough=10000, small_caps=True)
    if ctx['model_available']:
        nesting_pass(rep, ctx)


def replay(rep, data):
    r = rc.render(data['a_text'], data['b_text'])
    f = rc.c15_failures(r)
    print(f)
    return 1 if f else 0

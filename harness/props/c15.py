"""C15 - change markers never enclose block-level structure."""
import render_checks as rc
from props.render_common import run_render


def obs(a, b, r):
    return rc.c15_failures(r)


def run(rep, ctx):
    run_render(rep, ctx, 'c15', [('no-block-in-marker', obs)], n_quick=600, n_thorough=10000, small_caps=True)


def replay(rep, data):
    r = rc.render(data['a_text'], data['b_text'])
    f = rc.c15_failures(r)
    print(f)
    return 1 if f else 0

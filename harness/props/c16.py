"""C16 - URL comparison rules hide exactly the noise they name.

Observers on html_diff_render: pages with any number of archived / session-carrying links and images at every
position (first, last, adjacent), the irrelevant part rewritten to values that occur nowhere on the other page
(the hypothesis of C16_zero_partial), every rule and comma-combination; rules off.  Correspondence: the model's
url_eq against the live comparator classes, and the model's htmldiff against _htmldiff under each rule set.
The one listed known finding (a rewritten URL that also occurs on the other side) is replayed and reported as
KNOWN-FINDING; any non-zero count under the theorem's hypothesis is a violation."""
import itertools

import render_checks as rc
import render_lib as rl
from common import S, L, I, run_driver, rng_for, load_known_findings

RULES = ['jsessionid', 'wayback', 'wayback_uk']
WORDS = ['alpha', 'beta', 'report', 'data', 'the', 'of', 'climate', '2020', 'x', 'naïve', 'read', 'more']
TARGETS = ['http://example.gov/', 'https://www.noaa.gov/data/index.html', 'example.org/a/b?q=1', 'http://e.com/a.png', 'www.epa.gov/img/logo.gif',
           'https://example.gov/report.pdf', 'http://example.gov/x/20190101000000/y',
           # targets that carry the OTHER kind of noise, unchanged between the pages (an archived servlet URL)
           'https://host.test/path;jsessionid=ABCDEF0123', 'http://h.test/app.do;jsessionid=0a1b2c;k=v']
HOSTS = ['http://web.archive.org/', 'https://web.archive.org/', '/', '']
MODS = {'wayback': ['', 'im_', 'js_', 'cs_'], 'wayback_uk': ['', 'mp_', 'im_']}


class Stamp:
    """fresh, never repeated 14-digit stamps and session ids"""
    def __init__(self, rng):
        self.rng = rng
        self.used = set()

    def ts(self):
        while True:
            t = '%04d%02d%02d%02d%02d%02d' % (self.rng.randint(1996, 2024), self.rng.randint(1, 12), self.rng.randint(1, 28),
                                              self.rng.randint(0, 23), self.rng.randint(0, 59), self.rng.randint(0, 59))
            if t not in self.used:
                self.used.add(t)
                return t

    def sid(self):
        while True:
            t = ''.join(self.rng.choice('0123456789ABCDEFabcdef.!-_') for _ in range(self.rng.randint(1, 32)))
            if t not in self.used:
                self.used.add(t)
                return t


def make_url(kind, rng, stamp, spec=None):
    """returns (url, spec) where spec fixes everything but the irrelevant part"""
    if spec is None:
        if kind == 'wayback':
            spec = (rng.choice(HOSTS), rng.choice(MODS['wayback']), rng.choice(TARGETS))
        elif kind == 'wayback_uk':
            spec = ('', rng.choice(MODS['wayback_uk']), rng.choice(TARGETS))
        elif kind == 'jsessionid':
            spec = (rng.choice(['https://www.ncdc.noaa.gov/homr/api', '/app/page.do', 'http://h.test/a/b',
                                # the session id may follow a query string or sit inside a fragment
                                '', '?page=2', '#top',        # the parameter may begin the URL (a link to "this page" with a session)
                                'http://h.test/search.do?q=climate', '/chart?station=44&y=2', 'http://h.test/app#/results', '/p?x=1#sec',
                                'http://web.archive.org/web/20100101000000/http://h.test/servlet',
                                'https://www.webarchive.org.uk/wayback/en/archive/20100101000000mp_/http://h.test/s']), rng.choice(['', ';k=v', ';k=v;j=w', ';jsessionid=KEPT2', ';k=v;jsessionid=KEPT3;z']), None)
        else:
            spec = (rng.choice(TARGETS), None, None)
    if kind == 'wayback':
        return '%sweb/%s%s/%s' % (spec[0], stamp.ts(), spec[1], spec[2]), spec
    if kind == 'wayback_uk':
        return 'https://www.webarchive.org.uk/wayback/en/archive/%s%s/%s' % (stamp.ts(), spec[1], spec[2]), spec
    if kind == 'jsessionid':
        return '%s;jsessionid=%s%s' % (spec[0], stamp.sid(), spec[1]), spec
    return spec[0], spec


def gen_case(rng, kinds, n_items=None):
    """a pair of pages that differ only in the irrelevant URL parts of links/images of the given kinds"""
    stamp = Stamp(rng)
    n = rng.randint(1, 12) if n_items is None else n_items
    items = []
    for _ in range(n):
        k = rng.random()
        if k < 0.3:
            items.append(('text', ' '.join(rng.choice(WORDS) for _ in range(rng.randint(1, 4)))))
        elif k < 0.7:
            items.append(('a', rng.choice(kinds + ['plain']), rng.choice(['link', 'read more', ''])))
        else:
            items.append(('img', rng.choice(kinds + ['plain']), rng.choice(['src', 'data-src', 'src+srcset', 'srcset'])))
    layout = rng.choice(['inline', 'list', 'paras', 'bare'])
    pa, pb = [], []
    n_rewritten = 0
    rewritten_kinds = set()
    for it in items:
        if it[0] == 'text':
            pa.append(it[1])
            pb.append(it[1])
            continue
        kind = it[1]
        ua, spec = make_url(kind, rng, stamp)
        same = kind == 'plain' or rng.random() < 0.15
        ub = ua if same else make_url(kind, rng, stamp, spec)[0]
        n_rewritten += 0 if same else 1
        if not same:
            rewritten_kinds.add(kind)
        if it[0] == 'a':
            pa.append('<a href="%s">%s</a>' % (ua, it[2]))
            pb.append('<a href="%s">%s</a>' % (ub, it[2]))
        else:
            def img(u, how=it[2]):
                if how == 'src':
                    return '<img src="%s">' % u
                if how == 'data-src':
                    return '<img data-src="%s" alt="x">' % u
                if how == 'srcset':
                    return '<img srcset="%s 2x">' % u
                return '<img src="%s" srcset="%s 2x">' % (u, u)
            pa.append(img(ua))
            pb.append(img(ub))
        if rng.random() < 0.15:        # the link / image is the fallback content of an embedded object, or sits in other inline containers
            wrap = rng.choice(['<video src="v.webm">%s</video>', '<audio controls>no audio: %s</audio>', '<object data="o.swf">%s</object>',
                               '<span class="c">%s</span>', '<label>%s</label>', '<b><i>%s</i></b>'])
            pa[-1] = wrap % pa[-1]
            pb[-1] = wrap % pb[-1]

    def page(parts):
        if layout == 'inline':
            return '<p>%s</p>' % ' '.join(parts)
        if layout == 'list':
            return '<ul>%s</ul>' % ''.join('<li>%s</li>' % p for p in parts)
        if layout == 'paras':
            return ''.join('<p>%s</p>' % p for p in parts)
        return ''.join(parts)          # adjacent, no separators at all
    return page(pa), page(pb), n_rewritten, rewritten_kinds


def rule_sets():
    out = []
    for k in (1, 2, 3):
        for combo in itertools.permutations(RULES, k):
            out.append(list(combo))
    return out


def spell(rule_list, rng):
    sep = rng.choice([',', ', ', ' ,', ' , '])
    return sep.join(rule_list)


def url_eq_lines(rng, n):
    """model url_eq vs the live comparator classes"""
    import web_monitoring_diff.html_render_diff as h
    stamp = Stamp(rng)
    cases = []
    odd = ['web/2019052514153/x', 'web/20190525141538', 'web/20190525141538/', 'xweb/20190525141538im_/http://www.a.b/', 'web/20190525141538im_x/',
           'web/20190525141538js_/https://wwwxa.b/', 'web/1234567890123४/x', ';jsessionid=', ';jsessionid=;x', 'a;jsessionid=1;jsessionid=2', 'a;jsessionid=3;jsessionid=4', 'a;jsessionid=3;jsessionid=2', 'a;jsessionid=9', 'a;JSESSIONID=1',
           'https://www.webarchive.org.uk/wayback/en/archive/20190525141538mp_/http://www.x.y/', 'https://wwwXwebarchive.org.uk/wayback/en/archive/20190525141538/x',
           'web/20190525141538/web/20200101000000/z', 'web/20190525141538/http://www\n.a/', '', 'web/', ';']
    for _ in range(n):
        kind = rng.choice(RULES + ['plain'])
        ua, spec = make_url(kind, rng, stamp)
        k = rng.random()
        if k < 0.5:
            ub = make_url(kind, rng, stamp, spec)[0]
        elif k < 0.6:
            ub = ua
        elif k < 0.8:
            ub = make_url(rng.choice(RULES + ['plain']), rng, stamp)[0]
        else:
            ub = rng.choice(odd)
            if rng.random() < 0.5:
                ua = rng.choice(odd)
        rs = rng.choice(rule_sets() + [[]])
        cases.append((rs, ua, ub))
    # every pair of the odd spellings under every rule set (repeated noise markers, near misses, empty strings): systematic, not sampled
    for rs in rule_sets() + [[]]:
        for ua in odd:
            for ub in odd:
                cases.append((rs, ua, ub))
    lines = []
    impl = []
    for rs, ua, ub in cases:
        lines.append('url_eq %s %s %s' % (rl.enc_rules(','.join(rs)), S(ua), S(ub)))
        comp = h.UrlRules.get_comparator(','.join(rs))
        impl.append(bool(comp.compare(ua, ub)) if comp else ua == ub)
    return cases, lines, impl


def run(rep, ctx):
    import web_monitoring_diff.html_render_diff as h
    tier = ctx['tier']
    rng = rng_for(ctx['seed'], 'c16')
    n = 260 if tier == 'quick' else 5000
    known = load_known_findings("C16")

    # ---- the listed known finding: replay, report as KNOWN-FINDING while it still fails
    for k in known:
        inp = k['input']
        r = rc.render(inp['a_text'], inp['b_text'], url_rules=inp['url_rules'])
        rep.count(('known', inp['a_text']), True)
        if r['change_count'] != 0:
            rep.known_finding(k['what'])
        else:
            rep.extra.setdefault('known_findings_no_longer_failing', []).append(k['id'])

    # ---- observers: zero changes under every rule set covering the rewritten kinds; non-zero otherwise and with rules off
    fails = {'zero': 0, 'rules-off': 0, 'uncovered': 0, 'identity': 0}
    dist = {'pairs': 0, 'rewritten_links': 0, 'layouts': {}, 'rule_sets': 0}
    corr_pairs = []
    sets = rule_sets()
    for it in range(n):
        kinds = rng.sample(RULES, rng.randint(1, 3))
        a, b, n_rw, rw_kinds = gen_case(rng, kinds)
        dist['pairs'] += 1
        dist['rewritten_links'] += n_rw
        covering = [s for s in sets if set(kinds) <= set(s)]
        chosen = [rng.choice(covering)] + ([rng.choice(sets)] if rng.random() < 0.5 else [])
        if set(kinds) == set(RULES[:1]):
            chosen.append(None)            # the default value of url_rules
        for rs in chosen:
            spelled = 'jsessionid' if rs is None else spell(rs, rng)
            kw = {} if rs is None else {'url_rules': spelled}
            r = h.html_diff_render(a, b, include='all', **kw)
            rep.count((a, b, spelled), a != b)
            dist['rule_sets'] += 1
            covered = rw_kinds <= set(rs or ['jsessionid'])
            if covered and r['change_count'] != 0:
                fails['zero'] += 1
                if fails['zero'] <= 3:
                    rep.violation('c16-zero-%d' % fails['zero'], {
                        'what': 'pages differ only in the parts rule(s) %r declare irrelevant (every rewritten URL occurs nowhere on the other page) '
                                'but change_count is %d' % (spelled, r['change_count']),
                        'a_text': a, 'b_text': b, 'url_rules': spelled, 'call': 'html_diff_render(a_text, b_text, url_rules=%r)' % spelled})
            enabled = set(rs or ['jsessionid'])
            if rw_kinds - enabled and r['change_count'] == 0:
                fails['uncovered'] += 1
                if fails['uncovered'] <= 2:
                    rep.violation('c16-uncovered-%d' % fails['uncovered'], {
                        'what': 'URLs differ in a part that only rule(s) %s name, enabled rules are %r, but change_count is 0' % (sorted(rw_kinds - enabled), spelled),
                        'a_text': a, 'b_text': b, 'url_rules': spelled})
        if n_rw:
            for off in ('', None):
                r = h.html_diff_render(a, b, include='combined', url_rules=off)
                rep.count((a, b, 'off', off), True)
                if r['change_count'] == 0 and _href_differs(a, b):
                    fails['rules-off'] += 1
                    if fails['rules-off'] <= 2:
                        rep.violation('c16-rules-off-%d' % fails['rules-off'], {
                            'what': 'link targets differ and url_rules=%r, but change_count is 0' % (off,), 'a_text': a, 'b_text': b, 'url_rules': off})
        if rng.random() < 0.5:
            corr_pairs.append((a, b, rng.choice(sets + [[]])))
    rep.obligation('observer c16/zero: zero changes under every covering rule set on %d page pairs (%d rewritten links/images)' % (dist['pairs'], dist['rewritten_links']),
                   fails['zero'] == 0)
    rep.obligation('observer c16/rules-off: a differing link target is reported when url_rules is empty/None', fails['rules-off'] == 0)
    rep.obligation('observer c16/uncovered: a rule never hides a difference it does not name', fails['uncovered'] == 0)

    # ---- edge positions, systematically: one rewritten link/image at first, last, adjacent positions
    n_edge = 0
    for kind in RULES:
        for what in ('a', 'img'):
            for layout_words in (0, 1, 3):
                for pos in ('first', 'last', 'both', 'adjacent', 'only'):
                    st = Stamp(rng)
                    ua, spec = make_url(kind, rng, st)
                    ub = make_url(kind, rng, st, spec)[0]
                    uc, spec2 = make_url(kind, rng, st)
                    ud = make_url(kind, rng, st, spec2)[0]
                    el = (lambda u: '<a href="%s">l</a>' % u) if what == 'a' else (lambda u: '<img src="%s">' % u)
                    w = ' '.join(WORDS[:layout_words])
                    shapes = {'first': lambda x, y: el(x) + w, 'last': lambda x, y: w + el(x), 'both': lambda x, y: el(x) + w + el(y),
                              'adjacent': lambda x, y: w + el(x) + el(y) + w, 'only': lambda x, y: el(x)}
                    a, b = shapes[pos](ua, uc), shapes[pos](ub, ud)
                    for wrap in ('%s', '<p>%s</p>', '<body>%s</body>'):
                        r = h.html_diff_render(wrap % a, wrap % b, include='all', url_rules=kind)
                        rep.count((wrap % a, wrap % b, kind), True)
                        if r['change_count'] != 0:
                            n_edge += 1
                            if n_edge <= 2:
                                rep.violation('c16-edge-%d' % n_edge, {'what': 'rewritten %s at position %r under rule %r: change_count %d' % (what, pos, kind, r['change_count']),
                                                                        'a_text': wrap % a, 'b_text': wrap % b, 'url_rules': kind})
    rep.obligation('observer c16/edges: rewritten link/image first, last, both ends, adjacent, alone, for each rule', n_edge == 0)

    # ---- correspondence 1: url_eq of the model vs the live comparator classes
    if ctx['model_available']:
        cases, lines, impl = url_eq_lines(rng, 1500 if tier == 'quick' else 20000)
        model = run_driver(lines)
        bad = 0
        for (rs, ua, ub), m, i in zip(cases, model, impl):
            rep.count(('url_eq', tuple(rs), ua, ub), ua != ub)
            if m != i:
                bad += 1
                if bad <= 2:
                    rep.violation('c16-url-eq-%d' % bad, {'what': 'model url_eq and the comparator classes disagree', 'rules': rs, 'url_a': ua, 'url_b': ub,
                                                           'implementation': i, 'model': m,
                                                           'correspondence': 'Model/RenderTokens.v url_eq vs UrlRules.get_comparator(rules).compare'}, no_input=True)
        rep.obligation('correspondence c16: model url_eq = CompoundComparator.compare on %d URL pairs x rule sets' % len(cases), bad == 0)
        # ---- correspondence 2: the whole _htmldiff under the rules
        by_rules = {}
        for a, b, rs in corr_pairs:
            by_rules.setdefault(','.join(rs), []).append((a, b))
        bad = total = 0
        for spelled, prs in by_rules.items():
            fp = [tuple(rl.fragments_of(a, b)) for a, b in prs]
            for r in rl.correspondence(fp, url_rules=spelled):
                total += 1
                if r['mismatch'] or (r['impl'] is None and r['in_domain']):
                    bad += 1
                    if bad <= 2:
                        rep.violation('c16-correspondence-%d' % bad, {'what': 'model and implementation disagree on _htmldiff under url rules %r' % spelled,
                                                                      'disagreements': r['mismatch'] or r.get('exc'), 'old_fragment': r['old'], 'new_fragment': r['new'],
                                                                      'url_rules': spelled}, no_input=not any(fails.values()))
        rep.obligation('correspondence c16: model htmldiff = _htmldiff under every rule set on %d fragment pairs' % total, bad == 0)
    rep.extra['input_distribution'] = dist
    rep.sample({'a_text': a, 'b_text': b})
    rep.trusted += ['modelled rather than verified: the three regular expressions (hand-specialised matchers in Model/RenderTokens.v, pattern sources pinned by '
                    'C16_tables, tied by url_eq correspondence incl. non-ASCII digits and near misses); tokenisation/difflib as for C01-C03',
                    'harness/props/c16.py generator (fresh stamps: a rewritten URL never occurs on the other page - the hypothesis of C16_zero_partial)']
    rep.rule = ('generated pages of 1-12 items (text runs, links, images via src/data-src/srcset) in four layouts (inline, list, paragraphs, bare adjacent); '
                'archived (web.archive.org forms with and without host, im_/js_/cs_), UK archive (mp_/im_) and ;jsessionid= URLs; page B rewrites only the '
                'timestamp / session id to values never used elsewhere; each pair under a covering rule set (all permutations and spellings), a random rule '
                'set and rules off; plus a systematic first/last/adjacent/alone sweep per rule; non-trivial = pages differ')


def _links(text):
    import re
    return re.findall(r'(?:href|src|data-src)="([^"]*)"', text)


def _href_differs(a, b):
    import re
    return re.findall(r'href="([^"]*)"', a) != re.findall(r'href="([^"]*)"', b)


def replay(rep, data):
    r = rc.render(data['a_text'], data['b_text'], url_rules=data.get('url_rules'))
    print({k: r[k] for k in ('change_count', 'insertions_count', 'deletions_count')})
    return 1 if r['change_count'] else 0

"""C17 - differs are pure functions of their arguments.

The theorems (Props/C17.v) show that set-iteration order and the memo cache cannot influence results.  The
process-level claim is EXPLORED here: one fixed workload (every differ of the service x generated pages, incl.
sort-key ties and case variants) is run in fresh processes under different hash seeds, in different orders, several
times in one long-lived process and through a real process pool; the per-case digests must all agree and the
header mappings handed in must be unchanged.  The model side: sort_links of the extracted model on permuted
inputs (the theorem's instance, run) and page_links against the implementation's sorted list."""
import json
import os
import subprocess
import sys

from common import VERIF, REPO, S, L, run_driver, to_str, rng_for, load_known_findings

WORKER = os.path.join(VERIF, 'harness', 'purity_worker.py')


def run_worker(seed, order, passes=1, extra_env=None):
    env = dict(os.environ)
    env['PYTHONHASHSEED'] = str(seed)
    env['PYTHONPATH'] = REPO
    env.update(extra_env or {})
    out = subprocess.run(['/venv/bin/python', '-W', 'ignore', WORKER, order, str(passes)], env=env, capture_output=True, text=True, timeout=900)
    if out.returncode != 0:
        raise RuntimeError('worker failed (seed %s, order %s): %s' % (seed, order, out.stderr[-500:]))
    return json.loads(out.stdout.strip().splitlines()[-1])


def run(rep, ctx):
    tier = ctx['tier']
    seeds = list(range(8)) if tier == 'quick' else list(range(32))
    orders = ['natural', 'reversed', 'shuffle:1'] if tier == 'quick' else ['natural', 'reversed', 'shuffle:1', 'shuffle:2', 'shuffle:3', 'shuffle:4']
    runs = []
    from concurrent.futures import ThreadPoolExecutor
    jobs = [(s, 'natural', 1) for s in seeds] + [(seeds[i % len(seeds)], o, 1) for i, o in enumerate(orders)] + [(1, 'natural', 3), (2, 'shuffle:7', 2)] + \
           [(3, 'pool', 2)] + ([(5, 'pool', 3), (7, 'pool', 2)] if tier != 'quick' else [])
    with ThreadPoolExecutor(max_workers=8) as ex:
        results = list(ex.map(lambda j: run_worker(*j), jobs))
    base = results[0]
    n_cases = base['cases']
    diverged = {}
    for job, r in zip(jobs, results):
        rep.count(('run', job), True)
        for cid, d in r['digests'].items():
            if base['digests'].get(cid) != d:
                diverged.setdefault(cid, []).append(job)
    # Listed finding C17-dmp-deadline: compute_dmp_diff hands the native diff a wall-clock deadline, so a diff that needs about as
    # long as the limit comes out differently from run to run.  A divergence is attributed to it only when it disappears with that
    # one deadline switched off in re-runs of the very same jobs; whatever remains (and everything, if the finding is not listed) is
    # a violation.
    deadline_known = [k for k in load_known_findings('C17') if k['id'] == 'C17-dmp-deadline']
    attributed = {}
    if diverged and deadline_known:
        again = sorted({j for w in diverged.values() for j in w})[:4]
        nd = {'WMD_VERIF_NO_DMP_DEADLINE': '1'}
        base_nd = run_worker(*jobs[0], extra_env=nd)
        res_nd = [run_worker(*j, extra_env=nd) for j in again]
        for cid in list(diverged):
            if all(r['digests'].get(cid) == base_nd['digests'].get(cid) for j, r in zip(again, res_nd) if j in diverged[cid]) and \
               any(j in again for j in diverged[cid]):
                attributed[cid] = diverged.pop(cid)
        rep.count(('deadline-attributed', len(attributed)), True)
        rep.extra['cases_attributed_to_the_dmp_deadline'] = sorted(attributed)[:20]
    n = 0
    for cid, where in sorted(diverged.items()):
        n += 1
        if n <= 3:
            rep.violation('c17-diverged-%d' % n, {
                'what': 'the result of workload case %r differs from the run under PYTHONHASHSEED=%s in natural order' % (cid, seeds[0]),
                'differing_runs': [{'hashseed': j[0], 'order': j[1], 'passes': j[2]} for j in where[:6]],
                'replay_cmd': 'PYTHONHASHSEED=<seed> PYTHONPATH=/repo /venv/bin/python harness/purity_worker.py <order> <passes>  (compare digests[%r])' % cid})
    rep.obligation('exploration c17: %d workload cases give identical results under hash seeds %s' % (n_cases, seeds),
                   not any(j[1] == 'natural' and j[2] == 1 for w in diverged.values() for j in w))
    rep.obligation('exploration c17: identical results in orders %s' % orders, not any(j[1] != 'natural' and j[1] != 'pool' for w in diverged.values() for j in w))
    rep.obligation('exploration c17: identical results when the workload is repeated in one long-lived process and in a process pool with reused workers',
                   all(r['stable_across_passes'] for r in results) and not any(j[1] == 'pool' or j[2] > 1 for w in diverged.values() for j in w))
    same = all(r.get('same_args_same_result', True) for r in results)
    if not same:
        rep.violation('c17-same-args', {'what': 'two calls with identical arguments in one process returned different results (workload cases chain-*-0 / chain-*-1)',
                                        'replay_cmd': 'PYTHONPATH=/repo /venv/bin/python harness/purity_worker.py natural'})
    rep.obligation('exploration c17: identical arguments give identical results within one process (versions of a page diffed in a row)', same)
    hdr = all(r['headers_unchanged'] for r in results)
    if not hdr:
        rep.violation('c17-headers', {'what': 'a differ modified the header mapping it was given', 'replay_cmd': 'harness/purity_worker.py natural'})
    rep.obligation('exploration c17: header mappings handed to the differs are unchanged afterwards', hdr)
    # colour environment: only the style blocks may change
    col = run_worker(0, 'natural', 1, {'DIFFER_COLOR_INSERTION': '#010203', 'DIFFER_COLOR_DELETION': '#040506'})
    changed = sorted(c for c, d in col['digests'].items() if base['digests'][c] != d)
    ok_col = all(c in set(col.get('styled', [])) for c in changed)      # only the results of html_token and links carry a style block
    rep.count(('colours',), True)
    if not ok_col:
        rep.violation('c17-colours', {'what': 'the colour variables changed results that carry no styling', 'cases': changed[:10]})
    rep.obligation('exploration c17: the colour variables change only results that carry a style block (%d of %d cases)' % (len(changed), n_cases), ok_col)
    noise = run_worker(0, 'natural', 1, {'TZ': 'Pacific/Kiritimati', 'LANG': 'tr_TR.UTF-8', 'PYTHONUTF8': '1', 'COLUMNS': '7', 'LC_COLLATE': 'C', 'LC_NUMERIC': 'C', 'LC_TIME': 'C'})
    ok_noise = noise['digests'] == base['digests']
    rep.count(('noise-env',), True)
    if not ok_noise:
        rep.violation('c17-env', {'what': 'unrelated environment variables (TZ, LANG, LC_COLLATE/NUMERIC/TIME, PYTHONUTF8, COLUMNS) changed a result',
                                  'cases': [c for c, d in noise['digests'].items() if base['digests'][c] != d][:10]})
    rep.obligation('exploration c17: unrelated environment variables change nothing', ok_noise)
    # ---- the process locale (LC_ALL=C: character classification of the C library).  Listed finding C17-dmp-locale: the native
    # diff-match-patch call of compute_dmp_diff classifies characters with the C library's LC_CTYPE, so its semantic clean-up puts
    # edit boundaries elsewhere for text with non-ASCII letters.  Every difference under LC_ALL=C must flow through that call site:
    # with that one call pinned to a fixed LC_CTYPE the results must be those of the base run again, else it is a new violation.
    known = [k for k in load_known_findings('C17') if k['id'] == 'C17-dmp-locale']
    loc = run_worker(0, 'natural', 1, {'LC_ALL': 'C'})
    loc_changed = sorted(c for c, d in loc['digests'].items() if base['digests'][c] != d)
    rep.count(('locale-env', len(loc_changed)), True)
    rep.extra['cases_changed_by_LC_ALL_C'] = loc_changed[:20]
    ok_loc = True
    if loc_changed:
        pinned = run_worker(0, 'natural', 1, {'LC_ALL': 'C', 'WMD_VERIF_PIN_DMP_LOCALE': '1'})
        residual = sorted(c for c, d in pinned['digests'].items() if base['digests'][c] != d)
        rep.count(('locale-env-pinned', len(residual)), True)
        if residual or not known:
            ok_loc = False
            rep.violation('c17-locale', {'what': 'the process locale (LC_ALL=C) changed a result' + (' and the difference does NOT flow through the native diff-match-patch call '
                                         '(it remains with that call pinned to a fixed LC_CTYPE)' if residual else ''), 'cases': (residual or loc_changed)[:10],
                                         'replay_cmd': 'LC_ALL=C PYTHONHASHSEED=0 PYTHONPATH=/repo /venv/bin/python harness/purity_worker.py natural  (compare digests with a run without LC_ALL)'})
    rep.obligation('exploration c17: the process locale changes no result except through the listed native diff call (%d case(s) changed, all attributed)' % len(loc_changed), ok_loc)
    for k in deadline_known:   # the listed input: the outcome is decided by the deadline (compare with the deadline switched off)
        outs = []
        for extra in ({}, {'WMD_VERIF_NO_DMP_DEADLINE': '1'}):
            env = dict(os.environ, PYTHONHASHSEED='0', PYTHONPATH=REPO, **extra)
            o = subprocess.run(['/venv/bin/python', '-W', 'ignore', WORKER, 'deadline', str(k['input']['words'])], env=env, capture_output=True, text=True, timeout=600)
            outs.append(o.stdout.strip().splitlines()[-1] if o.returncode == 0 and o.stdout.strip() else 'failed: ' + o.stderr[-200:])
        rep.count(('known', k['id']), True)
        if outs[0] != outs[1] or attributed:
            rep.known_finding(k['what'])
        else:
            rep.extra.setdefault('known_findings_no_longer_failing', []).append(k['id'])
    for k in known:          # the listed input itself, replayed: reported while it still fails
        inp = k['input']
        args = ['one', inp['differ'], json.dumps(inp['kwargs'])]
        outs = []
        for extra in ({}, inp['environment']):
            env = dict(os.environ, PYTHONHASHSEED='0', PYTHONPATH=REPO, **extra)
            o = subprocess.run(['/venv/bin/python', '-W', 'ignore', WORKER] + args, env=env, capture_output=True, text=True, timeout=300)
            outs.append(o.stdout.strip().splitlines()[-1] if o.returncode == 0 and o.stdout.strip() else 'failed: ' + o.stderr[-200:])
        rep.count(('known', k['id']), True)
        if outs[0] != outs[1]:
            rep.known_finding(k['what'])
        else:
            rep.extra.setdefault('known_findings_no_longer_failing', []).append(k['id'])

    # ---- the theorem's instance, run: the extracted sort on permuted inputs; and against the implementation's sorted list
    if ctx['model_available']:
        import html5_parser
        import web_monitoring_diff.html_links_diff as m
        from props import c04
        rng = rng_for(ctx['seed'], 'c17')
        bad = 0
        lines, want = [], []
        for _ in range(150 if tier == 'quick' else 2000):
            a, _b = c04.gen_pair(rng)
            soup = html5_parser.parse(a, treebuilder='soup', return_root=False)
            links = list(set(m.Link.from_element(e) for e in m._find_outgoing_links(soup)))
            srt = sorted(links, key=lambda l: (l.text.lower(), l.href))
            for _k in range(2):
                rng.shuffle(links)
                lines.append('sort_links %s' % L([L([S(l.href), S(l.text)]) for l in links]))
                want.append([(l.href, l.text) for l in srt])
        got = run_driver(lines)
        for g, w in zip(got, want):
            rep.count(('sort', tuple(w)), len(w) > 1)
            if isinstance(g, tuple) or [(to_str(x[0]), to_str(x[1])) for x in g] != w:
                bad += 1
                if bad <= 1:
                    rep.violation('c17-sort-correspondence', {'what': 'model sort_links on a shuffled set differs from sorted(set, key=(text.lower(), href))',
                                                              'implementation': w, 'model': str(g)[:500]}, no_input=True)
        rep.obligation('correspondence c17: model sort_links on %d shuffled link sets = sorted(..., key=(text.lower(), href))' % len(lines), bad == 0)
    rep.extra['input_distribution'] = {'workload_cases': n_cases, 'process_runs': len(jobs) + 2, 'hash_seeds': seeds, 'orders': orders}
    rep.sample({'worker': 'harness/purity_worker.py natural', 'hashseed': seeds[0]})
    rep.level = 'proof'
    rep.trusted += ['the process-level claim (hash seeds, call histories, pool workers, native libraries global state, pickling) is EXPLORATION: a fixed workload under %d process runs; '
                    'the theorems cover only the order/history-dependent constructs of the Python code (set iteration, sorted(set), lru_cache)' % (len(jobs) + 2)]
    rep.rule = ('fixed workload of %d calls: every differ of the service on generated pages, link pages with sort-key ties and case variants, url rules, three header '
                'mappings; runs = hash seeds x orders x repeated passes x process pool; non-trivial = every run' % n_cases)


def replay(rep, data):
    print(data.get('replay_cmd'))
    return 1

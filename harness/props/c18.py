"""C18 - header pass-through and CORS: enumeration over the in-process service vs the model."""
import itertools

from common import rng_for
import server_cases as sc

CLIENT_HEADERS = [
    {},
    {'Authorization': 'Bearer secret', 'Cookie': 'sid=1; t=2', 'User-Agent': 'UA/1.0', 'X-Custom': 'v', 'Accept': 'application/json'},
    {'cookie': 'lower=1', 'X-Empty': '', 'Proxy-Authorization': 'Basic abc'},
]
PASS = [None, '', 'Cookie', 'cookie', 'COOKIE', ' Cookie , Authorization', 'Cookie,Cookie', 'cookie,Cookie', 'X-None', 'Cookie,,',
        ',', 'Coo kie', '*', 'Authorization,User-Agent,X-Custom,Accept', 'X-Empty', 'Proxy-Authorization, x-custom',
        'Cookie;Authorization', 'Authorization\t,\tcookie']
CORS = [None, '', '*', 'https://a.example', 'https://a.example, https://b.example', ' https://a.example ,*', 'https://a.example,',
        'null', 'https://*.example.org,http://one.com', 'http://one.com/*', '**', 'https://a.example, *.example',
        ' * ', 'https://a.example ,https://b.example']
ORIGINS = [None, 'https://a.example', 'https://b.example', 'https://evil.example', 'HTTPS://A.EXAMPLE', 'https://a.example.evil.example',
           'null', '*', 'https://a.example,https://b.example', 'https://x.example.org', 'http://one.com', 'http://one.com/*',
           'https://b.example ', 'http://one.com:8080', 'http://one.com:80', 'http://one.com:8000', 'https://a.example:443', 'https://a.example:4', 'https://a.example0', 'https://a.exampl', 'http://one.co']


def norm(name):
    return name.lower()


def hget(headers, name):
    items = headers.items() if isinstance(headers, dict) else headers
    vals = [v for k, v in items if norm(k) == norm(name)]
    return ','.join(vals) if vals else None


def observer(case, obs):
    fails = []
    params = {}
    for k, v in case['raw_query']:
        params[k] = v
    ph = params.get('pass_headers')
    expected = {}
    if ph:
        for key in ph.split(','):
            key = key.strip()
            v = hget(sc.received(case), key) if key else None
            if v:
                expected[norm(key)] = v
    client = {norm(k): v for k, v in sc.received(case)}
    for e in obs.log:
        if e[0] != 'fetch':
            continue
        got = {norm(k): v for k, v in e[2].items()}
        if got != expected:
            fails.append('upstream request to %s carried headers %s, expected exactly %s' % (e[1], got, expected))
        for k in got:
            if k in client and k not in expected:
                fails.append('client header %s leaked upstream without being listed' % k)
    conf = case.get('cors')
    origin = hget(sc.received(case), 'Origin')
    acao = obs.headers.get('Access-Control-Allow-Origin')
    allow = False
    if conf is not None and origin:
        allowed = set(o.strip() for o in conf.split(','))
        allow = origin in allowed or '*' in allowed
    if allow and acao != origin:
        fails.append('allowed Origin %r not echoed exactly (got %r)' % (origin, acao))
    if not allow and acao is not None:
        fails.append('Access-Control-Allow-Origin %r sent for origin %r with configuration %r' % (acao, origin, conf))
    return fails


def gen_cases(tier, rng):
    cases = []
    up = {'http://site.test/a': sc.ok_up(sc.HTML_A), 'https://site.test/b': sc.ok_up(sc.HTML_B)}

    def mk(differ, headers, ph, cors, origin, a='http://site.test/a', b='https://site.test/b', extra=()):
        raw = [('a', a)]
        if ph is not None:
            raw.append(('pass_headers', ph))
        raw.extend(extra)
        raw.append(('b', b))
        h = dict(headers)
        if origin is not None:
            h['Origin'] = origin
        return {'differ': differ, 'raw_query': raw, 'upstream': up, 'files': {'/data/a.html': sc.HTML_A},
                'req_headers': h, 'cors': cors}

    for h, ph in itertools.product(CLIENT_HEADERS, PASS):
        cases.append(mk('length', h, ph, None, None))
        cases.append(mk('html_source_dmp', h, ph, 'https://a.example', 'https://a.example'))
    # repeated pass_headers key: last one wins
    cases.append(mk('length', CLIENT_HEADERS[1], 'Cookie', None, None, extra=[('pass_headers', 'Authorization')]))
    cases.append(mk('length', CLIENT_HEADERS[1], 'Cookie', None, None, extra=[('pass_headers', '')]))
    for conf, origin in itertools.product(CORS, ORIGINS):
        cases.append(mk('length', CLIENT_HEADERS[1], 'Cookie', conf, origin))
        # error responses and unknown differs go through set_default_headers again (clear())
        cases.append(mk('nope', {}, None, conf, origin))
        cases.append(mk('length', {}, None, conf, origin, a='ftp://x'))
        if tier == 'thorough':
            cases.append(mk('html_token', CLIENT_HEADERS[2], 'cookie', conf, origin))
            cases.append(mk('length', {}, None, conf, origin, a='file:///data/a.html'))
    return cases


def run(rep, ctx):
    rng = rng_for(ctx['seed'], 'c18')
    rep.rule = ('enumeration: 3 client header sets x 18 pass_headers spellings (absent, empty, case variants, spacing, duplicates, '
                'unknown names, empty items, wildcard) and 8 origin configurations x 9 request origins on success, error and '
                'unknown-differ responses; non-trivial = client sends headers or an Origin; distinct by (headers, query, configuration)')
    rep.trusted += ['modelled rather than verified: Tornado HTTPHeaders (header names compared ASCII-case-insensitively; several values joined by ","); '
                    'pass_headers names are generated in ASCII (str.capitalize of non-ASCII names is not modelled)',
                    'harness/httpkit.py mock upstream client records the headers argument of client.fetch']
    cases = gen_cases(ctx['tier'], rng)
    records = sc.run_cases(cases, ctx['model_available'])
    for r in records:
        c = r['case']
        rep.count((tuple(c['raw_query']), tuple(sorted(c['req_headers'].items())), c['cors'], c['differ']),
                  bool(c['req_headers']))
    rep.sample(sc.describe(cases[5]))
    rep.sample(sc.describe(cases[-3]))
    sc.report_records(rep, records, observer, 'headers-and-origins')
    rep.extra['exhaustive'] = True


def replay(rep, data):
    print(data.get('what'))
    return 1

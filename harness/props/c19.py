"""C19 - conditional requests: validators distinct/repeatable, 304 sound, no effects on 304."""
import itertools
import re

from common import rng_for
import server_cases as sc

A, B = 'http://site.test/a', 'https://site.test/b'
UP = {A: sc.ok_up(sc.HTML_A), B: sc.ok_up(sc.HTML_B), 'http://site.test/a2': sc.ok_up(b'<p>other</p>'),
      **{u + sfx: sc.ok_up(b'<p>variant</p>') for u in (A, B) for sfx in ('caf\u00e9', 'cafe\u0301', '\u212b', '\u00c5', '\ufb01', 'fi', '\uac00', '\u1100\u1161')},
      'http://site.test/a ': sc.ok_up(b'<p>space</p>'), 'http://site.test/a\x01': sc.ok_up(b'<p>ctl</p>')}
TAG = re.compile(r'\*|(?:W/)?"[^"]*"')


def variants(base):
    """requests that differ from `base` in exactly one effective respect"""
    differ, raw = base
    out = []
    for d2 in ('identical_bytes', 'html_source_dmp', 'length'):
        if d2 != differ:
            out.append((d2, raw))
    for i, (k, v) in enumerate(raw):
        for v2 in (v + ' ', ' ' + v, v + '\x01', v + '2', v.upper() if v.upper() != v else v + 'X', v + '+', v + '\t', v + ' ', v + "'",
                   v + '"', v + '\\', v + '\n',
                   # the same text in another Unicode normalisation form / compatibility spelling is a different parameter value
                   v + 'caf\u00e9', v + 'cafe\u0301', v + '\u212b', v + '\u00c5', v + '\ufb01', v + 'fi', v + '\uac00', v + '\u1100\u1161'):
            out.append((differ, raw[:i] + [(k, v2)] + raw[i + 1:]))
        if k not in ('a', 'b'):
            out.append((differ, raw[:i] + raw[i + 1:]))
            out.append((differ, raw[:i] + [(k + 'x', v)] + raw[i + 1:]))
    out.append((differ, raw + [('extra', '1')]))
    import hashlib
    for hk, url, body in (('a_hash', A, sc.HTML_A), ('b_hash', B, sc.HTML_B)):
        # an expected hash is an effective parameter: its presence changes the validator.  The CORRECT digest is used so that the
        # request succeeds (an error response carries no validator to compare)
        if hk not in dict(raw) and dict(raw).get(hk[0]) == url:
            out.append((differ, raw + [(hk, hashlib.sha256(body).hexdigest())]))
    out.append((differ, raw + [('extra', '')]))
    # swapped URLs, swapped order of parameters
    sw = [(k, (dict(raw)['b'] if k == 'a' else dict(raw)['a'] if k == 'b' else v)) for k, v in raw]
    out.append((differ, sw))
    if len(raw) >= 2 and raw[0] != raw[-1]:
        out.append((differ, list(reversed(raw))))
    return out


def same_effective(base):
    differ, raw = base
    out = [(differ, list(raw))]
    # a repeated key whose last value is the same leaves the effective parameters unchanged
    k, v = raw[-1]
    out.append((differ, raw[:-1] + [(k, 'shadowed'), (k, v)]))
    return out


def effective(req):
    differ, raw = req
    d = {}
    for k, v in raw:
        d[k] = v
    return (differ, tuple(d.items()))


def mk(req, inm=None):
    differ, raw = req
    h = {}
    if inm is not None:
        h['If-None-Match'] = inm
    return {'differ': differ, 'raw_query': list(raw), 'upstream': UP, 'files': {}, 'req_headers': h}


def inm_values(etag):
    strong = etag[2:] if etag.startswith('W/') else etag
    return [etag, strong, '"x", ' + etag, strong + ', "y"', '*', '* , "x"', '"stale"', 'W/"stale"', 'stale', etag[:-1], etag.strip('"'),
            '"x", *', etag.lower().replace('w/', 'W/'), etag.upper(), ' ' + etag + ' ', etag + etag, 'W/' + etag, '', '"' + strong + '"',
            # malformed values with a bare asterisk: the header is read as a sequence of tokens (asterisk or quoted tag, anything else skipped),
            # and it is "the wildcard" when the first token is the asterisk - an asterisk inside a quoted tag is not one
            'stale*value', 'W/*', '**', '"a*b"', '"x"*', '"x" *']


def matcher_says(etag, inm):
    tags = TAG.findall(inm)
    if not etag or not tags:
        return False
    if tags[0] == '*':
        return True
    val = lambda x: x[2:] if x.startswith('W/') else x  # noqa
    return any(val(t) == val(etag) for t in tags)


def run(rep, ctx):
    rng = rng_for(ctx['seed'], 'c19')
    tier = ctx['tier']
    rep.rule = ('base requests x single-respect variants (differ name; each value with trailing/leading blank, control character, quote, '
                'backslash, newline, NBSP, case change; key dropped/renamed/added; URLs swapped; parameter order reversed) for distinctness; '
                'repeated-key equivalents for repeatability; 19 If-None-Match forms (exact, strong, lists, *, stale, truncated, re-cased) for '
                '304 soundness; error requests; non-trivial = a variant or a conditional request; distinct by (differ, query, If-None-Match)')
    rep.trusted += ['SHA-256 is not assumed injective: C19_distinct is about the hashed string; the harness compares sha256(model pre-image) '
                    'with the Etag header on every 200', 'modelled rather than verified: Tornado check_etag_header (re-implemented in Model/Etag.v), automatic ETag only on 200']
    bases = [('length', [('a', A), ('b', B)]),
             ('html_token', [('a', A), ('include', 'all'), ('b', B), ('url_rules', 'jsessionid')]),
             ('html_source_dmp', [('format', 'json'), ('a', A), ('b', B), ('note', "it's \"q\" \\ ü ☃")])]
    if tier == 'thorough':
        bases.append(('links_json', [('b', B), ('a', A), ('content_type_options', 'nocheck'), ('x', '')]))
    plain = []
    for base in bases:
        for req in [base] + variants(base) + same_effective(base):
            plain.append(req)
    cases = [mk(r) for r in plain]
    # parameters sent in a form-encoded request body are effective parameters too (they are merged with the query, later values win):
    # the same query with a different body is a different request
    import httpkit
    body_cases = []
    for differ, raw in bases:
        for extra in ([('b', 'http://site.test/a2')], [('a', 'http://site.test/a2'), ('b', A)], [('extra', '1')], [('include', 'deletions')], [('b', B)]):
            c = mk((differ, list(raw) + list(extra)))
            c['qs'] = httpkit.quote_qs(raw)
            c['req_body'] = httpkit.quote_qs(extra)
            c['req_headers'] = {'Content-Type': 'application/x-www-form-urlencoded'}
            body_cases.append(c)
        c = mk((differ, list(raw)))          # everything in the body, nothing in the query
        c['qs'] = ''
        c['req_body'] = httpkit.quote_qs(raw)
        c['req_headers'] = {'Content-Type': 'application/x-www-form-urlencoded'}
        body_cases.append(c)
    cases += body_cases
    # error requests carry no validator
    cases += [mk(('nope', [('a', A), ('b', B)])), mk(('length', [('a', A)])), mk(('length', [('a', 'ftp://x'), ('b', B)])),
              mk(('length', [('a', A), ('b', 'http://down.test/')])),
              # BOTH sides at fault (each way of failing, the same and different ones)
              mk(('length', [('a', 'ftp://x'), ('b', 'site.test/no-scheme')])), mk(('length', [('a', 'http://down.test/1'), ('b', 'http://down.test/2')])),
              mk(('html_token', [('a', A), ('a_hash', 'f' * 64), ('b', B), ('b_hash', '0' * 64)])), mk(('length', [('a', 'ftp://x'), ('b', 'http://down.test/')])),
              mk(('html_source_dmp', [('a', 'http://down.test/1'), ('b', B), ('b_hash', 'bad')]))]
    records = sc.run_cases(cases, ctx['model_available'])
    etag_of = {}
    fails_total = 0

    def violation(name, payload):
        nonlocal fails_total
        fails_total += 1
        if fails_total <= 4:
            rep.violation(name + '-%d' % fails_total, payload)

    n_corr = 0
    for r in records:
        c, obs = r['case'], r['obs']
        rep.count((c['differ'], tuple(c['raw_query'])))
        e = obs.headers.get('Etag')
        if obs.status >= 400 and e is not None:
            violation('error-with-validator', {'what': 'error response carries an Etag', 'case': sc.describe(c), 'status': obs.status})
        if obs.status == 200:
            if e is None:
                violation('no-validator', {'what': '200 without Etag', 'case': sc.describe(c)})
            etag_of.setdefault(effective((c['differ'], c['raw_query'])), []).append((e, c))
        if r['mismatches']:
            n_corr += 1
            if n_corr <= 2 and not fails_total:
                rep.violation('correspondence-%d' % n_corr, {'what': 'model and implementation disagree', 'disagreements': r['mismatches'],
                                                             'case': sc.describe(c), 'correspondence': 'Model/Etag.v etag_preimage / Model/Server.v get'},
                              no_input=True)
    # distinctness and repeatability
    seen = {}
    for eff, lst in etag_of.items():
        tags = set(e for e, _ in lst)
        if len(tags) > 1:
            violation('not-repeatable', {'what': 'identical effective requests received different validators', 'validators': sorted(tags),
                                         'requests': [sc.build_path(c) for _, c in lst]})
        for e in tags:
            if e in seen and seen[e][0] != eff:
                violation('not-distinct', {'what': 'two requests that differ in the differ name or an effective parameter share a validator',
                                           'validator': e, 'request_1': sc.build_path(seen[e][1]), 'request_2': sc.build_path(lst[0][1]),
                                           'effective_1': seen[e][0], 'effective_2': eff})
            seen.setdefault(e, (eff, lst[0][1]))
    rep.obligation('observer: validators distinct across %d differing requests, equal for equivalent ones, absent on errors' % len(etag_of),
                   fails_total == 0)
    rep.obligation('correspondence: model validator and response = implementation on %d requests' % len(records), n_corr == 0)

    # conditional requests
    cond = []
    for base in bases:
        e = etag_of[effective(base)][0][0]
        others = [x[0][0] for k, x in etag_of.items() if k != effective(base)][:3]
        for inm in inm_values(e) + others:
            cond.append((mk(base, inm), e))
    # the validator of the query-only request presented with a body that changes an effective parameter
    for bc in body_cases:
        k = effective((bc['differ'], bc['raw_query']))
        base = [b for b in bases if b[0] == bc['differ']][0]
        if k in etag_of and effective(base) in etag_of:
            c2 = dict(bc)
            c2['req_headers'] = dict(bc['req_headers'], **{'If-None-Match': etag_of[effective(base)][0][0]})
            cond.append((c2, etag_of[k][0][0]))
    # a validator of request X presented on request Y (cross use) must not give 304
    keys = list(etag_of)
    for _ in range(30 if tier == 'quick' else 150):
        k1, k2 = rng.sample(keys, 2)
        c2 = etag_of[k2][0][1]
        cond.append((mk((c2['differ'], c2['raw_query']), etag_of[k1][0][0]), etag_of[k2][0][0]))
    records = sc.run_cases([c for c, _ in cond], ctx['model_available'])
    n_bad = n_corr2 = 0
    for r, (_, own) in zip(records, cond):
        c, obs = r['case'], r['obs']
        inm = c['req_headers']['If-None-Match']
        rep.count((c['differ'], tuple(c['raw_query']), inm))
        should = matcher_says(own, inm)
        f = []
        if obs.status == 304 and not should:
            f.append('304 although If-None-Match %r neither is the wildcard nor contains the validator %r' % (inm, own))
        if obs.status == 304 and (obs.log or obs.differ_calls):
            f.append('304 but something was fetched or diffed: %s' % obs.log)
        if obs.status == 304 and obs.body:
            f.append('304 with a body')
        if should and obs.status != 304:
            f.append('If-None-Match %r contains the validator but the answer is %s' % (inm, obs.status))
        if f:
            n_bad += 1
            if n_bad <= 3:
                rep.violation('conditional-%d' % n_bad, {'what': f, 'case': sc.describe(c), 'validator_of_this_request': own, 'status': obs.status})
        elif r['mismatches']:
            n_corr2 += 1
            if n_corr2 <= 2:
                rep.violation('conditional-correspondence-%d' % n_corr2, {'what': 'model and implementation disagree', 'disagreements': r['mismatches'],
                                                                         'case': sc.describe(c)}, no_input=True)
    rep.obligation('observer: 304 exactly when If-None-Match is the wildcard or contains the validator, with no effects (%d conditional requests)' % len(cond), n_bad == 0)
    rep.obligation('correspondence: conditional requests model = implementation', n_corr2 == 0)
    # error responses of an application that is shutting down (the differ pool refuses work) carry no validator either
    kit = httpkit.Kit()
    n_term = 0
    try:
        for differ, raw in bases:
            for when in ('terminating', 'normal'):
                kit.app.terminating = (when == 'terminating')
                obs = kit.request('/' + differ + '?' + httpkit.quote_qs(raw), upstream=UP)
                rep.count(('terminating', differ, when))
                f = []
                if when == 'terminating' and obs.status < 400:
                    f.append('a diff request of an application that is shutting down was answered %s' % obs.status)
                if obs.status >= 400 and obs.headers.get('Etag') is not None:
                    f.append('error response (%s) of an application that is shutting down carries an Etag' % obs.status)
                if obs.status >= 400 and not (isinstance(obs.json, dict) and obs.json.get('code') == obs.status):
                    f.append('error response is not the JSON error object')
                if f:
                    n_term += 1
                    if n_term <= 2:
                        rep.violation('terminating-%d' % n_term, {'what': f, 'request': '/' + differ + '?' + httpkit.quote_qs(raw), 'application.terminating': when == 'terminating',
                                                                  'status': obs.status, 'etag': obs.headers.get('Etag')})
    finally:
        kit.app.terminating = False
        kit.close()
    rep.obligation('observer: error responses while the application is shutting down carry no validator', n_term == 0)
    rep.sample(sc.describe(cases[1]))
    rep.sample(sc.describe(cond[2][0]))


def replay(rep, data):
    print(data.get('what'))
    return 1

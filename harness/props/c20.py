"""C20 - shutdown: the protocol state graph with shutdown events (graceful, immediate, escalation) replayed on the real coroutines."""
from common import rng_for
import pool_harness as ph
from props.c07 import check_edges, TRIES


def run(rep, ctx):
    tier = ctx['tier']
    rng = rng_for(ctx['seed'], 'c20')
    rep.rule = ('as C07, with begin-shutdown events (graceful, immediate, graceful escalated to immediate) enabled at every state: exhaustive '
                'over every edge for 1 and 2 requests, and for 3 requests a seeded sample (quick) or every edge (thorough); non-trivial = '
                'the schedule contains a shutdown; distinct by schedule')
    rep.trusted += ['modelled rather than verified: what the OS does with killed workers; executor.shutdown(wait=True) lets running jobs finish and reaps '
                    'workers; kill() of a worker breaks the pool. The thorough tier additionally starts the real application with real worker '
                    'processes and checks that no worker pid survives shutdown (exploration, labelled so).',
                    'harness/pool_harness.py as in C07']
    if not ctx['model_available']:
        rep.obligation('model available', False)
        return
    total = 0
    for n in (1, 2, 3):
        for restart in (False, True):
            if n == 3 and restart and tier == 'quick':
                continue
            edges, nstates = ph.explore(n, TRIES, restart, True)
            total += nstates
            edges = [e for e in edges if any(k == 'shutdown' for k, _ in e[0])]
            if n == 3 and tier == 'quick':
                rng.shuffle(edges)
                edges = edges[:12000]
            for sched, _ in edges:
                rep.count(repr(sched), True)
            check_edges(rep, edges, restart, 'shutdown-%dreq-restart-%s' % (n, 'on' if restart else 'off'), TRIES, with_c20=True)
            if len(rep.samples) < 3 and edges:
                rep.sample({'requests': n, 'restart': restart, 'schedule': edges[len(edges) // 2][0], 'expected': edges[len(edges) // 2][1]})
    rep.extra['states'] = total
    real_process_exploration(rep)      # 3 s: real application, real worker processes (exploration of the OS-level residue)


def real_process_exploration(rep):
    """Real application, real 2-worker pool: after shutdown no worker pid is alive (exploration of the OS-level residue)."""
    import subprocess, sys, os
    script = os.path.join(os.path.dirname(os.path.abspath(__file__)), '..', 'real_shutdown_probe.py')
    if not os.path.exists(script):
        rep.extra['real_process_probe'] = 'not built'
        return
    from common import REPO
    env = dict(os.environ, PYTHONPATH=REPO, VERIF_REPO=REPO)
    import signal
    proc = subprocess.Popen(['/venv/bin/python', '-W', 'ignore', script], stdout=subprocess.PIPE, stderr=subprocess.STDOUT, env=env, start_new_session=True)
    try:
        raw, _ = proc.communicate(timeout=420)
        p = proc
    except subprocess.TimeoutExpired:
        # a hung probe is a finding of its own (workers that cannot be stopped keep it from finishing): kill the whole group
        try:
            os.killpg(proc.pid, signal.SIGKILL)
        except Exception:  # noqa
            pass
        raw, _ = proc.communicate()
        raw += b'\nPROBE HUNG: killed after 420 s'

        class p:  # noqa
            returncode = 1
    out = raw.decode(errors='replace')
    rep.extra['real_process_probe'] = out[-1500:]
    rep.obligation('exploration: real worker processes are gone after shutdown in every probed scenario', p.returncode == 0, out[-300:])
    if p.returncode != 0:
        rep.violation('real-process-probe', {'what': 'worker processes left alive / wrong status with real processes', 'output': out[-3000:]})


def replay(rep, data):
    impl = ph.run_impl([tuple(e) for e in data['schedule']], data.get('restart_option', False))
    print(impl)
    fails = ph.property_failures(impl, [tuple(e) for e in data['schedule']], TRIES, data.get('restart_option', False))
    print(fails)
    return 1 if fails else 0

"""One driver for the render property checks: generate documents, run the implementation once per pair,
apply the given observers, and run the coarse correspondence seam (_htmldiff vs Model/RenderMerge.v)."""
import itertools

import render_checks as rc
import render_lib as rl
from common import rng_for
from gen import smallscope


def run_render(rep, ctx, label, observers, n_quick, n_thorough, corr_fraction=1.0, include='all', identity=False,
               extra_pairs=(), big=False, url_rules='jsessionid', small_caps=False, small_scope=True):
    tier = ctx['tier']
    rng = rng_for(ctx['seed'], label)
    # a worker process serves every differ: let the others run first (a differ's result must not depend on that)
    try:
        from web_monitoring_diff import html_links_diff as _hl, basic_diffs as _bd
        _w = ('<p>warm <a href="/x"><img src="i.png" alt="up">link</a> <video src="v"><p>f</p></video></p>', '<p>warm <a href="/y">link</a> text</p>')
        _hl.links_diff_json(*_w), _hl.links_diff_html(*_w), _bd.html_text_diff(*_w), _bd.html_source_diff(*_w), _bd.side_by_side_text(*_w)
    except Exception:  # noqa
        pass
    n = n_quick if tier == 'quick' else n_thorough
    docs = rc.documents(rng, n) + list(extra_pairs)
    n_scope = 0
    if small_scope:
        # small-scope exhaustive: every page of at most 2 nodes over a tiny alphabet against every other one (thorough), or
        # every third of them (quick); thorough adds every 3-node page against itself
        ps = smallscope.pages(2, 2)
        if tier == 'quick':
            ps = ps[::3]
        scope = list(itertools.product(ps, ps))
        if tier != 'quick':
            scope += [(p3, p3) for p3 in smallscope.pages(3, 2)]
        n_scope = len(scope)
        docs += scope
    fail_counts = {name: 0 for name, _ in observers}
    n_crash = 0
    frag_pairs = []
    dist = {'identical': 0, 'edited': 0, 'with_doctype': 0, 'fragment': 0}
    for a, b in docs:
        rep.count((a, b), a != b)
        dist['identical' if a == b else 'edited'] += 1
        dist['with_doctype' if a.lstrip().lower().startswith('<!doctype') else 'fragment'] += 1
        try:
            r = rc.render(a, b, include=include, url_rules=url_rules)
        except Exception as e:  # noqa
            n_crash += 1
            if n_crash <= 2:
                rep.violation('%s-crash-%d' % (label, n_crash), {'what': 'html_diff_render raised %s: %s' % (type(e).__name__, e),
                                                                'a_text': a, 'b_text': b})
            continue
        for name, obs in observers:
            fails = obs(a, b, r)
            if fails:
                fail_counts[name] += 1
                if fail_counts[name] <= 3:
                    rep.violation('%s-%s-%d' % (label, name, fail_counts[name]), {
                        'what': fails[:4], 'a_text': a, 'b_text': b, 'include': include, 'url_rules': url_rules,
                        'call': 'html_diff_render(a_text, b_text, include=%r, url_rules=%r)' % (include, url_rules),
                        'counts': {k: r.get(k) for k in ('change_count', 'insertions_count', 'deletions_count')}})
        if identity:
            ri = rc.render(a, a, include=include, url_rules=url_rules)
            fails = rc.identity_failures(a, ri)
            rep.count((a, a), False)
            if fails:
                fail_counts['identity'] = fail_counts.get('identity', 0) + 1
                if fail_counts['identity'] <= 3:
                    rep.violation('%s-identity-%d' % (label, fail_counts['identity']), {'what': fails, 'a_text': a, 'b_text': a})
        if rng.random() < corr_fraction:
            frag_pairs.append((a, b))
    # ---- real pages (the repository's own fixtures), observers only
    real = rc.real_pages()
    n_real = 0
    for a, b in real:
        rep.count(('real', len(a), len(b), a == b, hash(a) & 0xffff, hash(b) & 0xffff), a != b)
        try:
            r = rc.render(a, b, include=include, url_rules=url_rules)
            fails = []
            for name, obs in observers:
                fails += obs(a, b, r)
            if identity and a == b:
                fails += rc.identity_failures(a, r)
        except Exception as e:  # noqa
            fails = ['html_diff_render raised %s: %s' % (type(e).__name__, e)]
        if fails:
            n_real += 1
            if n_real <= 2:
                rep.violation('%s-real-page-%d' % (label, n_real), {'what': fails[:4], 'a_text': a, 'b_text': b, 'include': include, 'url_rules': url_rules,
                                                                   'source': 'web_monitoring_diff/tests/fixtures/versions/*'})
    rep.obligation('observer %s: property holds on %d pairs of real archived pages (repository fixtures)' % (label, len(real)), n_real == 0)
    rep.extra['real_page_pairs'] = len(real)
    for name, _ in observers:
        rep.obligation('observer %s/%s: property holds on %d document pairs' % (label, name, len(docs)), fail_counts[name] == 0)
    if identity:
        rep.obligation('observer %s/identity: zero changes, no markers on %d pages' % (label, len(docs)), fail_counts.get('identity', 0) == 0)
    rep.obligation('observer %s: html_diff_render raised on none of %d pairs' % (label, len(docs)), n_crash == 0)
    # ---- coarse correspondence seam
    if ctx['model_available'] and frag_pairs:
        fp = []
        for a, b in frag_pairs:
            try:
                fp.append(tuple(rl.fragments_of(a, b)))
            except Exception:  # noqa
                pass
        recs = rl.correspondence(fp, url_rules=url_rules)
        n_corr = 0
        outside = sum(1 for r in recs if not r['in_domain'])
        any_obs = any(v for v in fail_counts.values())
        for r in recs:
            if r['mismatch'] or (r['impl'] is None and r['in_domain']):
                n_corr += 1
                if n_corr <= 2:
                    rep.violation('%s-correspondence-%d' % (label, n_corr), {
                        'what': 'model and implementation disagree on _htmldiff; %s' % (
                            'see the observer failures of this run' if any_obs else 'the observers see no property failure on this input'),
                        'correspondence': 'Model/RenderMerge.v htmldiff vs _htmldiff(old_fragment, new_fragment, comparator, "all")',
                        'disagreements': r['mismatch'] or r.get('exc'), 'old_fragment': r['old'], 'new_fragment': r['new'],
                        'implementation': r['impl'][1] if r['impl'] else None, 'model': r['model']}, no_input=not any_obs)
        rep.obligation('correspondence %s: model htmldiff = _htmldiff (counts and all three strings) on %d fragment pairs' % (label, len(recs)), n_corr == 0)
        rep.extra['trees_outside_modelled_domain'] = outside
    # ---- the spacer cap: the same documents with a tiny cap (module constant MAX_SPACERS set from outside), so that the
    # code path beyond the cap is exercised on small pages too; observers and correspondence
    if small_caps:
        sub = [(d, rng.choice([0, 1, 2, 3, 4, 5, 7, 10])) for d in docs if rng.random() < 0.3][:400 if tier == 'quick' else 4000]
        # the hand-picked pairs and pages that END with (empty) block elements, under the smallest caps: the tags of spacers dropped
        # at the very end of a page are handed to the last kept token
        tails = ['<p>one two</p><p></p>', '<ul><li>a b</li><li></li></ul>', '<div><p>x y z</p><div></div></div><section></section>', '<p>w</p><table></table>']
        sub += [((a, b), cap) for (a, b) in list(rc.HAND_PAIRS) + [(t, t) for t in tails] + [(tails[0], tails[1]), (tails[2], tails[0])] for cap in (0, 1, 2)]
        n_cap = 0
        cap_pairs = {}
        for (a, b), cap in sub:
            try:
                with rc.spacer_cap(cap):      # the observers that render again must see the same cap
                    r = rc.render(a, b, include=include, url_rules=url_rules)
                    fails = []
                    for name, obs in observers:
                        fails += obs(a, b, r)
            except Exception as e:  # noqa
                fails = ['html_diff_render raised %s: %s' % (type(e).__name__, e)]
            rep.count((a, b, cap), a != b)
            if fails:
                n_cap += 1
                if n_cap <= 2:
                    rep.violation('%s-smallcap-%d' % (label, n_cap), {'what': fails[:4], 'a_text': a, 'b_text': b, 'MAX_SPACERS': cap,
                                                                      'call': 'html_render_diff.MAX_SPACERS = %d; html_diff_render(a_text, b_text)' % cap})
            cap_pairs.setdefault(cap, []).append((a, b))
        rep.obligation('observer %s: property holds with the spacer cap set to 0..10 on %d pairs' % (label, len(sub)), n_cap == 0)
        if ctx['model_available']:
            n_corr = 0
            total = 0
            for cap, prs in cap_pairs.items():
                fp = []
                for a, b in prs:
                    try:
                        fp.append(tuple(rl.fragments_of(a, b)))
                    except Exception:  # noqa
                        pass
                for r in rl.correspondence(fp, url_rules=url_rules, max_spacers=cap):
                    total += 1
                    if r['mismatch'] or (r['impl'] is None and r['in_domain']):
                        n_corr += 1
                        if n_corr <= 2:
                            rep.violation('%s-correspondence-cap-%d' % (label, n_corr), {
                                'what': 'model and implementation disagree on _htmldiff with MAX_SPACERS=%d' % cap,
                                'correspondence': 'Model/RenderMerge.v htmldiff (cap argument) vs _htmldiff with html_render_diff.MAX_SPACERS set',
                                'disagreements': r['mismatch'] or r.get('exc'), 'old_fragment': r['old'], 'new_fragment': r['new'],
                                'MAX_SPACERS': cap}, no_input=(n_cap == 0))
            rep.obligation('correspondence %s: model = _htmldiff under spacer caps 0..10 on %d fragment pairs' % (label, total), n_corr == 0)
    # ---- very large pages: beyond the spacer cap on the real code
    if big:
        import web_monitoring_diff.html_render_diff as h
        sizes = [(900, 0), (900, 2)] if tier == 'quick' else [(900, 0), (1200, 1), (900, 2), (3000, 0), (2000, 2)]
        n_big = 0
        for size, variant in sizes:
            page = rc.big_page(size, variant)
            page2 = page.replace('para 450', 'para 450 changed').replace('item 450 ', 'item 450 changed ').replace('tail %d<' % (size - 20), 'tale %d<' % (size - 20))
            for a, b in ((page, page), (page, page2)):
                r = rc.render(a, b, include=include)
                rep.count(('big', size, variant, a == b), True)
                fails = []
                for name, obs in observers:
                    fails += obs(a, b, r)
                if a == b:
                    fails += rc.identity_failures(a, r)
                if fails:
                    n_big += 1
                    if n_big <= 2:
                        rep.violation('%s-big-%d' % (label, n_big), {'what': fails[:4], 'page': 'render_checks.big_page(%d, %d)' % (size, variant),
                                                                     'identical': a == b, 'max_spacers': h.MAX_SPACERS})
        # pages of more than 10 000 tokens in which a block identical to its neighbours is removed / added (k copies vs k-1)
        for nrows in ((4200,) if tier == 'quick' else (4200, 9000)):
            rows = ['<p>para %d text</p>' % i for i in range(nrows)]
            notice = '<p class="notice">Important notice text</p>'
            pa = ''.join(rows[:nrows // 2]) + notice * 3 + ''.join(rows[nrows // 2:])
            pb = ''.join(rows[:nrows // 2]) + notice * 2 + ''.join(rows[nrows // 2:])
            for a, b in ((pa, pb), (pb, pa)):
                r = rc.render(a, b, include=include)
                rep.count(('big-repeat', nrows, a is pa), True)
                fails = []
                for name, obs in observers:
                    fails += obs(a, b, r)
                if fails:
                    n_big += 1
                    if n_big <= 2:
                        rep.violation('%s-big-repeat-%d' % (label, n_big), {'what': fails[:4], 'page': '%d paragraphs with a run of 3 (2) identical notices in the middle' % nrows,
                                                                            'a_text': a[:300] + ' ... ' + a[len(a) // 2 - 200:len(a) // 2 + 300], 'direction': 'removed' if a is pa else 'added'})
        rep.obligation('observer %s: pages beyond the spacer cap (%s elements) and beyond 10 000 tokens' % (label, [s for s, _ in sizes]), n_big == 0)
    dist['small_scope_exhaustive_pairs'] = n_scope
    rep.extra['input_distribution'] = dist
    rep.sample({'a_text': docs[0][0][:400], 'b_text': docs[0][1][:400]})
    rep.sample({'a_text': docs[len(docs) // 2][0][:400], 'b_text': docs[len(docs) // 2][1][:400]})
    rep.trusted += ['modelled rather than verified: html5-parser (both tree builders), BeautifulSoup (copy, unwrap, extract, str/decode), '
                    'lxml etree.tostring for opaque elements (its result is an input of the model), difflib (re-modelled in Lib/Difflib.v; '
                    'dict lookup = equal string value and ==, string-hash collisions ignored); the re-parse of the emitted chunk stream is '
                    'covered per input by the document-level observers (html5-parser based), not by a theorem',
                    'harness/render_lib.py (lxml tree -> model tree converter, observers), harness/gen/htmlgen.py (structured generator)']
    rep.rule = ('structured generator of small well-formed pages (nested blocks, lists, tables, inline markup, links, images, <br> + text, '
                'script/style/svg/select/form controls, escaped entities, body-level text, existing ins/del, with/without head/body/doctype) '
                'and structure-aware edits (word changes, inserted/deleted/moved blocks, inline wrappers, retargeted links) plus hand-picked '
                'pairs from past findings, plus a small-scope EXHAUSTIVE part: every page of <= 2 nodes (depth 2) over 5 leaves x 7 wrappers '
                'against every other one (every third page in the quick tier; thorough adds all 855 three-node pages against themselves); non-trivial = the two documents differ; distinct by document pair')



def replay_known(rep, prop, failures):
    """Listed known findings of a render property: each listed input is replayed on every run and reported (KNOWN-FINDING) while
    the observer still sees it fail; nothing but exactly these inputs is suppressed."""
    from common import load_known_findings
    for kf in load_known_findings(prop):
        inp = kf['input']
        try:
            r = rc.render(inp['a_text'], inp['b_text'], include=inp.get('include', 'all'), **({'url_rules': inp['url_rules']} if 'url_rules' in inp else {}))
            fails = failures(inp['a_text'], inp['b_text'], r)
        except Exception as e:  # noqa
            fails = ['raised %r' % e]
        rep.count(('known', inp['a_text'], inp['b_text']), True)
        if fails:
            rep.known_finding(kf['what'])
        else:
            rep.extra.setdefault('known_findings_no_longer_failing', []).append(kf['id'])

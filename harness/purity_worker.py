#!/venv/bin/python
"""Runs the fixed C17 workload in this process and prints one JSON object:
   {"digests": {case_id: sha256 of the canonical result}, "headers_unchanged": bool, "hashseed": ...}
   usage: purity_worker.py <order> [<passes>]     order: natural | reversed | shuffle:<n> | pool
The workload is deterministic (its own PRNG seed), so every process builds the same cases."""
import copy
import hashlib
import json
import os
import random
import sys
import warnings

warnings.filterwarnings('ignore')
sys.path.insert(0, os.path.dirname(os.path.abspath(__file__)))


def workload():
    from gen import htmlgen
    from props import c04 as links_gen
    rng = random.Random(20240917)
    pages = [htmlgen.pair(rng, True) for _ in range(14)]
    g = htmlgen.Gen(rng, True)
    docs = [(g.document(a), g.document(b)) for a, b in pages[:8]] + pages[8:]
    link_pairs = [links_gen.gen_pair(rng) for _ in range(10)]
    # sort-key ties and near-ties, texts differing in case only, many links (set iteration order matters most here)
    many = ''.join('<a href="/p%d">%s</a>' % (i % 7, t) for i, t in enumerate(['a', 'A', 'a(b', 'b)(c', 'Home', 'HOME', 'home', 'x', 'X', 'é', 'É', 'read more'] * 3))
    many2 = ''.join('<a href="/p%d">%s</a>' % (i % 5, t) for i, t in enumerate(['A', 'a', 'b)(c', 'a(b', 'HOME', 'Home', 'x', 'y', 'É', 'é', 'Read More'] * 3))
    # ties of a concatenated text+href key, hrefs differing only in the case of the path, same text with many targets
    ties = ''.join('<a href="%s">%s</a>' % (h, t) for h, t in [('b(c', 'a'), ('c', 'a(b'), ('y(1', 'x'), ('1', 'x(y'), ('/n(/m', 'News'), ('/m', 'news(/n'), ('q(r(s', 'p'), ('s', 'p(q(r'), ('r(s', 'p(q'), ('b)(c', 'a'), ('/Reports', 'Reports'), ('/reports', 'Reports'), ('/REPORTS', 'reports'),
                                                                 ('/Data/Air.CSV', 'data'), ('/data/air.csv', 'Data'), ('/x', 'same'), ('/X', 'same'), ('/y', 'same'), ('/Y', 'SAME')])
    ties2 = ''.join('<a href="%s">%s</a>' % (h, t) for h, t in [('c', 'a(b'), ('b(c', 'a'), ('b)(c', 'a'), ('/reports', 'Reports'), ('/Reports', 'Reports'), ('/data/air.csv', 'Data'),
                                                                  ('/Data/Air.CSV', 'data'), ('/X', 'same'), ('/x', 'same'), ('/z', 'same')])
    link_pairs += [(many, many2), (many2, many), (many, many), (ties, ties2), (ties2, ties), (ties, ties)]
    headers = [None, {'Content-Type': 'text/html; charset=utf-8'}, {'content-type': 'TEXT/HTML', 'X-Other': 'v'}]
    cases = []
    for i, (a, b) in enumerate(docs):
        hdr = headers[i % 3]
        cases.append(('render-all-%d' % i, 'html_token', dict(a_text=a, b_text=b, a_headers=hdr, b_headers=hdr, include='all')))
        cases.append(('render-rules-%d' % i, 'html_token', dict(a_text=a, b_text=b, include='combined', url_rules='jsessionid,wayback')))
        cases.append(('text-%d' % i, 'html_text_dmp', dict(a_text=a, b_text=b)))
        cases.append(('source-%d' % i, 'html_source_dmp', dict(a_text=a, b_text=b)))
        cases.append(('sbs-%d' % i, 'side_by_side_text', dict(a_text=a, b_text=b)))
        cases.append(('len-%d' % i, 'length', dict(a_body=a.encode('utf-8'), b_body=b.encode('utf-8'))))
        cases.append(('bytes-%d' % i, 'identical_bytes', dict(a_body=a.encode('utf-8'), b_body=b.encode('utf-8'))))
    # the same archived pages under every url rule (a result must not depend on what was compared before, under which rule)
    w = 'http://web.archive.org/web/%s/http://example.gov/%s'
    uk = 'https://www.webarchive.org.uk/wayback/en/archive/%s/http://example.gov/%s'
    arch_a = '<p>Intro <a href="%s">report</a> and <img src="%s"> then <a href="%s">uk</a> <a href="/s;jsessionid=AAA">session</a></p>' % (
        w % ('20190101000000', 'r'), w % ('20190101000000im_', 'i.png'), uk % ('20190101000000', 'u'))
    arch_b = '<p>Intro <a href="%s">report</a> and <img src="%s"> then <a href="%s">uk</a> <a href="/s;jsessionid=BBB">session</a></p>' % (
        w % ('20200202000000', 'r'), w % ('20200202000000im_', 'i.png'), uk % ('20200202000000', 'u'))
    for rules in ('wayback', 'wayback_uk', 'jsessionid', '', 'wayback_uk,wayback', 'jsessionid,wayback,wayback_uk', None,
                  'jsessionid,wayback', 'jsessionid,wayback_uk', 'wayback_uk,jsessionid', 'wayback,jsessionid'):
        cases.append(('archived-%s' % rules, 'html_token', dict(a_text=arch_a, b_text=arch_b, include='all', url_rules=rules)))
        cases.append(('archived-rev-%s' % rules, 'html_token', dict(a_text=arch_b, b_text=arch_a, include='combined', url_rules=rules)))
    # versions of one page diffed in a row, as a monitoring job does (v1->v2, v2->v3, the same request again): results
    # must not depend on a document having been seen just before
    wrap = '<div class="wrap"><div class="inner"><p>%s</p><ul><li>%s</li><li>two</li></ul></div><section><h2>%s</h2><p>tail %s</p></section></div>'
    versions = [wrap % ('first para', 'one', 'Title', 'a'), wrap % ('first para changed', 'one', 'Title', 'a'), wrap % ('first para changed', 'one more', 'Title 2', 'b'),
                wrap % ('other', 'one more', 'Title 2', 'b')]
    for k in range(len(versions) - 1):
        for rep_i in range(2):
            cases.append(('chain-%d-%d' % (k, rep_i), 'html_token', dict(a_text=versions[k], b_text=versions[k + 1], include='all')))
        cases.append(('chain-links-%d' % k, 'links_json', dict(a_text=versions[k], b_text=versions[k + 1])))
        cases.append(('chain-text-%d' % k, 'html_text_dmp', dict(a_text=versions[k], b_text=versions[k + 1])))
    # element names that have the name of a separable tag as a prefix (p: pre, picture, param, progress; li: link, listing): how
    # such tags are classified must not depend on the iteration order of a set of names
    fam = ('<div><pre>code %s here</pre><p>para %s</p><picture><source srcset="s.webp"><img src="i.png"></picture> text %s <progress value="1"></progress> '
           '<object data="o"><param name="a" value="b">obj %s</object><listing>lst %s</listing><ul><li>x %s</li></ul><pre>tail</pre></div>')
    fam_a, fam_b = fam % ('one', 'one', 'one', 'one', 'one', 'one'), fam % ('two', 'one more', 'two', 'two', 'two', 'two')
    cases.append(('prefix-family', 'html_token', dict(a_text=fam_a, b_text=fam_b, include='all')))
    cases.append(('prefix-family-rev', 'html_token', dict(a_text=fam_b, b_text=fam_a, include='all')))
    cases.append(('prefix-family-pre', 'html_token', dict(a_text='<p>intro</p><pre>line one\nline two</pre><p>end</p>', b_text='<p>intro now</p><pre>line 1\nline two</pre><p>the end</p>', include='all')))
    # blank documents (replaced by the placeholder page): the placeholder must be the same in every call, whatever views earlier
    # calls with a blank side asked for
    page = '<html><head><title>p</title></head><body><p>some words here</p></body></html>'
    for i, (x, y, inc) in enumerate([('', page, 'all'), (page, '', 'all'), ('', page, 'deletions'), ('  ', page, 'combined'), (page, '\n', 'insertions'), ('', '', 'all'),
                                     ('', page, 'insertions'), (page, '', 'deletions'), ('', page, 'all')]):
        cases.append(('blank-%d' % i, 'html_token', dict(a_text=x, b_text=y, include=inc)))
    # a deleted script inside embedded SVG (its inert wrapper is moved out of the graphic): the same call several times in one process
    fg_a = '<p>hello</p><svg width="4"><script>var s = 1;</script><circle r="2"></circle></svg><math><mi>x</mi><style>mi { color: red }</style></math>'
    for rep_i in range(3):
        cases.append(('foreign-deleted-%d' % rep_i, 'html_token', dict(a_text=fg_a, b_text='<p>hello</p>', include='all')))
    # a Content-Type value with a comma in it (a repeated header, joined): the mapping given by the caller must come back unchanged
    for i, ct in enumerate(['text/html, text/html; charset=utf-8', 'text/html; profile="a,b"', 'text/plain,text/html']):
        hdr = {'Content-Type': ct, 'Vary': 'a, b'}
        cases.append(('comma-header-%d' % i, 'html_token', dict(a_text='<p>one</p>', b_text='<p>two</p>', a_headers=hdr, b_headers=dict(hdr), include='combined')))
        cases.append(('comma-header-links-%d' % i, 'links_json', dict(a_text='<a href="/x">x</a>', b_text='<a href="/y">x</a>', a_headers=hdr, b_headers=dict(hdr))))
    cases.append(('chain-back', 'html_token', dict(a_text=versions[2], b_text=versions[0], include='all')))
    for i, (a, b) in enumerate(link_pairs):
        hdr = headers[i % 3]
        cases.append(('links-json-%d' % i, 'links_json', dict(a_text=a, b_text=b, a_headers=hdr, b_headers=hdr)))
        cases.append(('links-html-%d' % i, 'links', dict(a_text=a, b_text=b)))
    # image galleries whose images carry several source URLs (src + srcset), the same URLs in another order in the other version
    def _img(n, rev):
        base = 'https://img.example.org/photos/%d' % n
        cands = ['%s-480.jpg 480w' % base, '%s-800.jpg 800w' % base, '%s-1200.jpg 1200w' % base, '%s-320.jpg 320w' % base]
        if rev:
            cands.reverse()
        return '<img alt="photo %d" src="%s-320.jpg" srcset="%s">' % (n, base, ','.join(cands))
    gal_a = '<h1>Gallery</h1>' + ''.join('<p>before%d %s older%d</p>' % (r_, ' '.join(_img(r_ * 3 + k, False) for k in range(3)), r_) for r_ in range(24))
    gal_b = '<h1>Gallery</h1>' + ''.join('<p>after%d %s newer%d</p>' % (r_, ' '.join(_img(r_ * 3 + k, True) for k in range(3)), r_) for r_ in range(24))
    cases.append(('gallery', 'html_token', dict(a_text=gal_a, b_text=gal_b, include='all', url_rules='')))
    cases.append(('gallery-rev', 'html_token', dict(a_text=gal_b, b_text=gal_a, include='combined')))
    # a page beyond the spacer cap, diffed against its next version, again, and against the version after that
    cards = ['<div class="card"><p>card %d text</p></div>' % i for i in range(900)]
    big0, big1 = ''.join(cards), ''.join(cards[:450] + ['<div class="card"><p>card 450 changed</p></div>'] + cards[451:])
    big2 = ''.join(cards[:450] + ['<div class="card"><p>card 450 changed again</p></div>'] + cards[451:])
    for name, x, y in (('big-0-1', big0, big1), ('big-0-1-again', big0, big1), ('big-1-2', big1, big2), ('big-0-0', big0, big0)):
        cases.append((name, 'html_token', dict(a_text=x, b_text=y, include='insertions')))
    # arguments the differ refuses (an unknown rule after a valid one, an unknown include value is accepted silently): the refusal is
    # part of the result and must be the same every time
    for k in range(3):
        cases.append(('bad-rules-%d' % k, 'html_token', dict(a_text=arch_a, b_text=arch_b, include='combined', url_rules='jsessionid,waybak')))
        cases.append(('bad-rules-first-%d' % k, 'html_token', dict(a_text=arch_a, b_text=arch_b, url_rules='nope,wayback')))
        cases.append(('bad-option-%d' % k, 'html_token', dict(a_text=arch_a, b_text=arch_b, content_type_options='nonsense')))
    # pages nested deeper than the interpreter's default recursion limit, first and last in the workload: whether they can be diffed
    # must not depend on which differ (or module) happened to run before in this process
    deep_a = '<div>' * 1200 + '<p>bottom old</p>' + '</div>' * 1200
    deep_b = '<div>' * 1200 + '<p>bottom new <a href="/x">l</a></p>' + '</div>' * 1200
    first = [('deep-render-first', 'html_token', dict(a_text=deep_a, b_text=deep_b, include='combined')),
             ('deep-links-first', 'links_json', dict(a_text=deep_a, b_text=deep_b))]
    last = [('deep-render-last', 'html_token', dict(a_text=deep_b, b_text=deep_a, include='insertions')),
            ('deep-text-last', 'html_text_dmp', dict(a_text=deep_a, b_text=deep_b)),
            ('deep-source-last', 'html_source_dmp', dict(a_text=deep_a, b_text=deep_b))]
    return first + cases + last


def canonical(x):
    if isinstance(x, dict):
        return {str(k): canonical(v) for k, v in sorted(x.items(), key=lambda kv: str(kv[0]))}
    if isinstance(x, (list, tuple)):
        return [canonical(v) for v in x]
    if isinstance(x, bytes):
        return x.hex()
    if hasattr(x, '__iter__') and not isinstance(x, str):
        return [canonical(v) for v in x]
    return x


def run_case(case):
    from web_monitoring_diff.server.server import DIFF_ROUTES
    cid, route, kwargs = case
    kw = copy.deepcopy(kwargs)
    try:
        res = DIFF_ROUTES[route](**kw)
        out = canonical(res)
    except Exception as e:  # noqa
        out = {'raised': type(e).__name__, 'message': str(e)[:200]}
    unchanged = all(kw.get(h) == kwargs.get(h) for h in ('a_headers', 'b_headers'))
    return cid, hashlib.sha256(json.dumps(out, sort_keys=True, ensure_ascii=False).encode('utf-8')).hexdigest(), unchanged


def pin_native_diff_locale():
    """Attribution aid for the listed finding C17-dmp-locale: runs the native diff-match-patch call of compute_dmp_diff (and only
    that call) under a fixed LC_CTYPE.  If a locale-dependent result becomes locale-independent with this pin, the dependence flows
    through that call site; anything else that depends on the locale still shows."""
    import locale
    import web_monitoring_diff.basic_diffs as bd
    native = bd.diff

    def pinned(*args, **kwargs):
        old = locale.setlocale(locale.LC_CTYPE)
        locale.setlocale(locale.LC_CTYPE, 'C.UTF-8')
        try:
            return native(*args, **kwargs)
        finally:
            locale.setlocale(locale.LC_CTYPE, old)
    bd.diff = pinned


def no_native_diff_deadline():
    """Attribution aid for the listed finding C17-dmp-deadline: runs the native diff-match-patch call of compute_dmp_diff (and only
    that call) without its wall-clock deadline.  A result that differs between runs and becomes stable with this switch depends on
    elapsed time through that call site; anything else that differs between runs still shows."""
    import web_monitoring_diff.basic_diffs as bd
    native = bd.diff

    def unlimited(*args, **kwargs):
        kwargs['timelimit'] = 0
        return native(*args, **kwargs)
    bd.diff = unlimited


def deadline_texts(n):
    """The listed input of C17-dmp-deadline: two fixed pseudo-random texts of n words."""
    import random
    rnd = random.Random(1)
    words = [''.join(rnd.choice('abcdefghij') for _ in range(rnd.randint(2, 7))) for _ in range(3000)]
    def text(seed):
        r = random.Random(seed)
        return ' '.join(r.choice(words) for _ in range(n))
    return text(1), text(2)


def main():
    if os.environ.get('WMD_VERIF_PIN_DMP_LOCALE'):
        pin_native_diff_locale()
    if os.environ.get('WMD_VERIF_NO_DMP_DEADLINE'):
        no_native_diff_deadline()
    if len(sys.argv) > 1 and sys.argv[1] == 'deadline':     # purity_worker.py deadline <n words>: the listed input, one call
        a, b = deadline_texts(int(sys.argv[2]))
        cid, d, ok = run_case(('one', 'html_source_dmp', {'a_text': a, 'b_text': b}))
        print(json.dumps({'digests': {cid: d}}))
        return
    if len(sys.argv) > 1 and sys.argv[1] == 'one':          # one call: purity_worker.py one <route> <json kwargs>
        cid, d, ok = run_case(('one', sys.argv[2], json.loads(sys.argv[3])))
        print(json.dumps({'digests': {cid: d}}))
        return
    order = sys.argv[1] if len(sys.argv) > 1 else 'natural'
    passes = int(sys.argv[2]) if len(sys.argv) > 2 else 1
    cases = workload()
    seq = list(cases)
    if order == 'reversed':
        seq.reverse()
    elif order.startswith('shuffle:'):
        random.Random(int(order.split(':')[1])).shuffle(seq)
    digests = {}
    stable = True
    headers_ok = True
    if order == 'pool':
        import concurrent.futures
        with concurrent.futures.ProcessPoolExecutor(max_workers=2) as pool:     # long-lived workers shared by all cases, like the service
            for _ in range(passes):
                for cid, d, ok in pool.map(run_case, seq):
                    stable = stable and digests.setdefault(cid, d) == d
                    headers_ok = headers_ok and ok
    else:
        for _ in range(passes):
            for case in seq:
                cid, d, ok = run_case(case)
                stable = stable and digests.setdefault(cid, d) == d
                headers_ok = headers_ok and ok
    by_args = {}
    same_args_ok = True
    for cid, route, kwargs in cases:
        key = hashlib.sha256(repr((route, sorted((k, repr(v)) for k, v in kwargs.items()))).encode()).hexdigest()
        if cid in digests:
            same_args_ok = same_args_ok and by_args.setdefault(key, digests[cid]) == digests[cid]
    print(json.dumps({'digests': digests, 'same_args_same_result': same_args_ok, 'styled': sorted(c for c, r, _ in cases if r in ('html_token', 'links')), 'stable_across_passes': stable, 'headers_unchanged': headers_ok,
                      'hashseed': os.environ.get('PYTHONHASHSEED'), 'order': order, 'cases': len(cases)}))


if __name__ == '__main__':
    main()

#!/venv/bin/python
"""C20/C07 exploration with REAL worker processes (the OS-level residue no model can exhibit).

The real application object (make_app), the real DiffHandler.diff coroutine, the real ProcessPoolExecutor with real
worker processes running a real (slow) differ.  Scenarios: shutdown when idle, graceful while busy, immediate while
busy, graceful escalated to immediate, shutdown before any pool exists, a worker killed from outside (pool breakage)
followed by shutdown.  After each: no worker pid of any pool this application created is alive (zombies count as
dead), no pool was created after shutdown began, running diffs finished normally under graceful shutdown.
Exit 0 iff every scenario behaved; prints one line per scenario."""
import asyncio
import os
import signal
import sys
import time
import warnings

import tornado.httputil
import tornado.testing

warnings.filterwarnings('ignore')
sys.path.insert(0, os.environ.get('VERIF_REPO', '/repo'))
os.environ.setdefault('DIFFER_PARALLELISM', '2')


def slow_diff(a_body, b_body, seconds='0.8'):
    time.sleep(float(seconds))
    return {'diff': [[0, len(a_body)]], 'pid': os.getpid()}


def alive(pid):
    try:
        with open('/proc/%d/stat' % pid) as f:
            state = f.read().rsplit(')', 1)[1].split()[0]
        return state != 'Z'
    except OSError:
        return False


async def wait_dead(pids, timeout=8.0):
    end = time.time() + timeout
    while time.time() < end:
        if not any(alive(p) for p in pids):
            return True
        await asyncio.sleep(0.05)
    return not any(alive(p) for p in pids)


class Req:
    url = 'http://example.test/page'


class Resp:
    """just enough of the fetched-response object for caller() (picklable: it is sent to the worker)"""
    def __init__(self, body):
        self.body = body
        self.headers = {'Content-Type': 'text/html; charset=utf-8'}
        self.code = 200
        self.request = Req()


async def scenario(name, script, handlers=False):
    import concurrent.futures
    import web_monitoring_diff.server.server as df
    created = []
    real = concurrent.futures.ProcessPoolExecutor

    class Tracking(real):
        def __init__(self, *a, **k):
            super().__init__(*a, **k)
            created.append(self)
    concurrent.futures.ProcessPoolExecutor = Tracking
    df.concurrent.futures.ProcessPoolExecutor = Tracking
    quits = []
    try:
        app = df.make_app()

        async def quit(immediate=False, code=0):
            quits.append(code)
        app.quit = quit

        class H(df.DiffHandler):
            def __init__(self, application):
                self.application = application

        def start(seconds):
            return asyncio.ensure_future(H(app).diff(slow_diff, Resp(b'<p>a</p>'), Resp(b'<p>b</p>'), {'seconds': str(seconds)}))

        def pids():
            out = []
            for p in created:
                out += list((p._processes or {}).keys())
            return out
        if handlers:
            # the way start_app() runs the service: its SIGINT/SIGTERM handlers are installed before the first pool forks, so the
            # workers inherit them (no signal is sent here; what matters is what a worker does with a SIGTERM from the pool itself)
            from web_monitoring_diff.utils import Signal
            with Signal((signal.SIGINT, signal.SIGTERM), app.handle_signal):
                problems = await script(app, start, pids, created)
        else:
            problems = await script(app, start, pids, created)
        all_pids = set(problems.pop('pids'))
        pools_at_begin = problems.pop('pools_at_begin')
        fails = problems.pop('fails')
        if len(created) > pools_at_begin:
            fails.append('%d pool(s) created after shutdown began' % (len(created) - pools_at_begin))
        if not await wait_dead(all_pids):
            fails.append('worker processes still alive after shutdown: %s' % sorted(p for p in all_pids if alive(p)))
        print('%-34s %s' % (name, 'ok (%d worker pids checked)' % len(all_pids) if not fails else 'FAILED: ' + '; '.join(fails)), flush=True)
        return not fails
    finally:
        concurrent.futures.ProcessPoolExecutor = real
        df.concurrent.futures.ProcessPoolExecutor = real
        for p in created:
            for child in list((p._processes or {}).values()):
                try:
                    child.kill()
                except Exception:  # noqa
                    pass


async def result_of(task, timeout=10):
    try:
        return ('ok', await asyncio.wait_for(task, timeout))
    except asyncio.TimeoutError:
        return ('timeout', None)
    except BaseException as e:  # noqa
        return ('error', type(e).__name__)


async def s_idle(app, start, pids, created):
    r = await result_of(start(0.05))
    seen = pids()
    n = len(created)
    await app.shutdown()                # the documented default is a graceful shutdown
    late = await result_of(start(0.05))
    fails = []
    if r[0] != 'ok':
        fails.append('warm-up diff failed: %s' % (r,))
    if late[0] == 'ok':
        fails.append('a diff requested after shutdown was answered normally')
    return {'pids': seen + pids(), 'pools_at_begin': n, 'fails': fails}


async def s_graceful_busy(app, start, pids, created):
    t = start(0.8)
    await asyncio.sleep(0.3)
    seen = pids()
    n = len(created)
    sd = asyncio.ensure_future(app.shutdown())          # default arguments: graceful
    late = await result_of(start(0.05))
    r = await result_of(t)
    await sd
    fails = []
    if r[0] != 'ok':
        fails.append('the running diff did not finish normally under graceful shutdown: %s' % (r,))
    if late[0] == 'ok':
        fails.append('a diff requested during shutdown was answered normally')
    return {'pids': seen + pids(), 'pools_at_begin': n, 'fails': fails}


async def s_graceful_queued(app, start, pids, created):
    """more diffs in flight than the pool runs at once (DIFFER_PARALLELISM=2: two running, the rest submitted and waiting): a graceful
    shutdown lets every one of them finish with its normal result - none is dropped, cancelled or answered with an error"""
    tasks = [start(0.4) for _ in range(9)]
    await asyncio.sleep(0.25)
    seen = pids()
    n = len(created)
    sd = asyncio.ensure_future(app.shutdown())
    results = [await result_of(t, 20) for t in tasks]
    await sd
    fails = []
    bad = [r for r in results if r[0] != 'ok']
    if bad:
        fails.append('%d of %d diffs that were in flight when a graceful shutdown began did not finish normally: %s' % (len(bad), len(results), bad[:3]))
    return {'pids': seen + pids(), 'pools_at_begin': n, 'fails': fails}


async def s_double_signal(app, start, pids, created):
    """two signals in a row, before the loop has run the first one's callback (ctrl+c pressed twice): the second one means
    'immediately' - the running diff is killed, not waited for"""
    import time
    import tornado.ioloop
    loop = tornado.ioloop.IOLoop.current()
    stopped = []
    real_stop = loop.stop
    loop.stop = lambda: stopped.append(time.time())          # handle_signal stops the loop when shutdown is done: record it instead
    try:
        t = start(4.0)
        await asyncio.sleep(0.4)
        seen = pids()
        n = len(created)
        t0 = time.time()
        app.handle_signal(signal.SIGINT, None)
        app.handle_signal(signal.SIGINT, None)
        for _ in range(120):
            if stopped:
                break
            await asyncio.sleep(0.05)
        elapsed = time.time() - t0
        r = await result_of(t, 6)
    finally:
        loop.stop = real_stop
    fails = []
    if not stopped:
        fails.append('shutdown had not completed 6 s after two signals')
    elif elapsed > 2.5:
        fails.append('the second signal did not make the shutdown immediate: it took %.1f s (the running 4 s diff was waited for)' % elapsed)
    if r[0] == 'ok':
        fails.append('the diff that was running when the second signal arrived finished normally instead of being killed')
    return {'pids': seen + pids(), 'pools_at_begin': n, 'fails': fails}


async def s_immediate_busy(app, start, pids, created):
    t = start(5)
    await asyncio.sleep(0.3)
    seen = pids()
    n = len(created)
    t0 = time.time()
    await app.shutdown(immediate=True)
    r = await result_of(t, 6)
    fails = []
    if r[0] == 'ok':
        fails.append('a killed diff was answered normally')
    if r[0] == 'timeout':
        fails.append('the request whose diff was killed never got an answer')
    if time.time() - t0 > 4:
        fails.append('immediate shutdown waited for the running diff')
    return {'pids': seen + pids(), 'pools_at_begin': n, 'fails': fails}


async def s_escalate(app, start, pids, created):
    t = start(5)
    await asyncio.sleep(0.3)
    seen = pids()
    n = len(created)
    t0 = time.time()
    sd = asyncio.ensure_future(app.shutdown(immediate=False))
    await asyncio.sleep(0.2)
    await app.shutdown(immediate=True)
    r = await result_of(t, 6)
    await asyncio.wait_for(sd, 8)
    fails = []
    if time.time() - t0 > 4:
        fails.append('the escalated shutdown waited for the running diff (%.1fs)' % (time.time() - t0))
    if r[0] == 'timeout':
        fails.append('the request whose diff was killed never got an answer')
    return {'pids': seen + pids(), 'pools_at_begin': n, 'fails': fails}


async def s_before_pool(app, start, pids, created):
    n = len(created)
    await app.shutdown(immediate=False)
    late = await result_of(start(0.05))
    fails = []
    if late[0] == 'ok':
        fails.append('a diff requested after shutdown was answered normally')
    return {'pids': pids(), 'pools_at_begin': n, 'fails': fails}


async def s_broken_then_shutdown(app, start, pids, created):
    r = await result_of(start(0.05))
    first = pids()
    if first:
        os.kill(first[0], signal.SIGKILL)          # a worker dies: the pool is broken
    await asyncio.sleep(0.2)
    r2 = await result_of(start(0.05), 15)            # served by a replacement pool (or an error when restarts are off)
    seen = first + pids()
    n = len(created)
    await app.shutdown(immediate=False)
    fails = []
    if r[0] != 'ok':
        fails.append('warm-up diff failed: %s' % (r,))
    if r2[0] == 'timeout':
        fails.append('the request after the breakage never got an answer')
    return {'pids': seen + pids(), 'pools_at_begin': n, 'fails': fails}


async def http_scenario(name, immediate, stage='diffing'):
    """A really listening application on the loopback interface, a real HTTP client with a diff request in flight (the
    upstream fetch is a local stand-in, the differ runs in a real worker), then shutdown: graceful must deliver the
    normal 200 response to the client, immediate must answer or close - and no worker may stay alive."""
    import concurrent.futures
    import tornado.httpclient
    import tornado.netutil
    import tornado.httpserver
    import web_monitoring_diff.server.server as df
    created = []
    real = concurrent.futures.ProcessPoolExecutor

    class Tracking(real):
        def __init__(self, *a, **k):
            super().__init__(*a, **k)
            created.append(self)

    class Upstream:
        max_body_size = 0

        async def fetch(self, url, **kwargs):
            import io
            if stage == 'fetching':
                await asyncio.sleep(1.2)        # the upstream server is slow: shutdown begins while the request is still fetching
            req = tornado.httpclient.HTTPRequest(url)
            return tornado.httpclient.HTTPResponse(req, 200, headers=tornado.httputil.HTTPHeaders({'Content-Type': 'text/html'}),
                                                   buffer=io.BytesIO(b'<p>%s</p>' % url.encode()))
    saved_client = df.get_http_client
    concurrent.futures.ProcessPoolExecutor = Tracking
    df.concurrent.futures.ProcessPoolExecutor = Tracking
    df.get_http_client = lambda: Upstream()
    df.DIFF_ROUTES['slow_probe'] = slow_diff
    fails = []
    try:
        app = df.make_app()
        sock, port = tornado.testing.bind_unused_port()
        app.server = tornado.httpserver.HTTPServer(app)
        app.server.add_sockets([sock])
        client = tornado.httpclient.AsyncHTTPClient(force_instance=True)
        url = 'http://127.0.0.1:%d/slow_probe?a=http://up.test/a&b=http://up.test/b&seconds=%s' % (
            port, '0.3' if stage == 'fetching' else '5' if immediate else '1.0')
        fut = asyncio.ensure_future(client.fetch(url, raise_error=False, request_timeout=20))
        await asyncio.sleep(0.5)
        pids = []
        for p in created:
            pids += list((p._processes or {}).keys())
        n = len(created)
        t0 = time.time()
        await app.shutdown(immediate=immediate)
        try:
            resp = await asyncio.wait_for(fut, 10)
            code = resp.code
        except Exception as e:  # noqa
            code = 'client error %s' % type(e).__name__
        if stage == 'fetching':
            # the request had not reached the differ when shutdown began: it must not be diffed any more, and whatever it does
            # when its upstream content finally arrives must leave no worker behind
            await asyncio.sleep(1.5)
            if code == 200:
                fails.append('a request that was still fetching when shutdown began was diffed and answered 200')
        elif not immediate and code != 200:
            fails.append('graceful shutdown: the client of the running diff got %s instead of 200' % (code,))
        elif immediate and code == 200:
            fails.append('immediate shutdown: the killed diff was answered with 200')
        if immediate and time.time() - t0 > 4:
            fails.append('immediate shutdown waited for the running diff')
        if len(created) > n:
            fails.append('%d pool(s) created after shutdown began' % (len(created) - n))
        for p in created:
            pids += list((p._processes or {}).keys())
        if not await wait_dead(set(pids)):
            fails.append('worker processes still alive after shutdown')
        client.close()
        print('%-34s %s' % (name, 'ok (client got %s)' % code if not fails else 'FAILED: ' + '; '.join(fails)), flush=True)
        return not fails
    finally:
        concurrent.futures.ProcessPoolExecutor = real
        df.concurrent.futures.ProcessPoolExecutor = real
        df.get_http_client = saved_client
        df.DIFF_ROUTES.pop('slow_probe', None)
        for p in created:
            for child in list((p._processes or {}).values()):
                try:
                    child.kill()
                except Exception:  # noqa
                    pass


def watchdog(name, seconds=120):
    """A scenario that does not come back is a failure of its own (workers that cannot be stopped keep the pool's threads, and with
    them the event loop's teardown, from finishing): report it, kill the children, leave."""
    def hung(signum, frame):
        alive = [c.pid for c in __import__('multiprocessing').active_children() if c.is_alive()]
        print('%-34s FAILED: the scenario did not finish within %d s (shutdown or loop teardown hangs); %d worker process(es) still alive: %s' % (
            name, seconds, len(alive), alive), flush=True)
        for child in __import__('multiprocessing').active_children():
            try:
                child.kill()
            except Exception:  # noqa
                pass
        os._exit(1)
    signal.signal(signal.SIGALRM, hung)
    signal.alarm(seconds)


def main():
    scenarios = [('idle, graceful', s_idle), ('busy, graceful', s_graceful_busy), ('queued, graceful', s_graceful_queued), ('busy, immediate', s_immediate_busy),
                 ('busy, graceful then immediate', s_escalate), ('busy, two signals back to back', s_double_signal), ('before any pool exists', s_before_pool),
                 ('worker killed, then graceful', s_broken_then_shutdown), ('server signal handlers, worker killed, then graceful', s_broken_then_shutdown),
                 ('server signal handlers, busy, immediate', s_immediate_busy)]
    ok = True
    for name, fn in scenarios:
        try:
            watchdog(name)
            ok = asyncio.run(asyncio.wait_for(scenario(name, fn, handlers=name.startswith('server signal handlers')), 60)) and ok
            signal.alarm(0)
        except Exception as e:  # noqa
            print('%-34s FAILED: probe raised %s: %s' % (name, type(e).__name__, e), flush=True)
            ok = False
    for name, immediate, stage in (('HTTP request in flight, graceful', False, 'diffing'), ('HTTP request in flight, immediate', True, 'diffing'),
                                   ('HTTP request still fetching, graceful', False, 'fetching'), ('HTTP request still fetching, immediate', True, 'fetching')):
        try:
            watchdog(name)
            ok = asyncio.run(asyncio.wait_for(http_scenario(name, immediate, stage), 60)) and ok
            signal.alarm(0)
        except Exception as e:  # noqa
            print('%-34s FAILED: probe raised %s: %s' % (name, type(e).__name__, e), flush=True)
            ok = False
    return 0 if ok else 1


if __name__ == '__main__':
    rc = main()
    sys.stdout.flush()
    # leave without the interpreter's exit handlers: concurrent.futures joins the manager thread of every pool at exit, and that
    # thread never returns when workers of a broken pool ignore SIGTERM (which is exactly what one scenario detects)
    for child in __import__('multiprocessing').active_children():
        try:
            child.kill()
        except Exception:  # noqa
            pass
    os._exit(rc)

"""Generators, runners and document-level observers shared by the render properties."""
import logging
import re

import render_lib as rl
from gen import htmlgen

logging.getLogger('web_monitoring_diff.html_render_diff').setLevel(logging.CRITICAL + 1)

HAND_PAIRS = [
    # a deleted script inside a graphic nested in another graphic: the inert template must end up outside BOTH
    ('<p>hello</p><svg width="9"><g><svg><script>alert(6)</script><circle r="1"/></svg></g></svg><p>end</p>', '<p>hello</p><p>end</p>'),
    ('<p>hello</p><svg><foreignObject><math><mi>x</mi><style>mi { color: red }</style></math></foreignObject></svg>', '<p>hello</p>'),
    # a deleted graphic whose script sits inside an element NAMED template (an SVG element there, nothing inert about it)
    ('<p>hello</p><svg><template><script>alert(5)</script></template><circle r="1"/></svg>', '<p>hello</p>'),
    ('<p>hello</p><math><template><style>mi { color: red }</style></template><mi>x</mi></math><p>end</p>', '<p>hello</p><p>end</p>'),
    # markup quoted as text (no blank in it) against the live element spelled the same way: the readable text differs
    ('<p>Example:</p><code>&lt;script&gt;alert(1)&lt;/script&gt;</code>', '<p>Example:</p><code><script>alert(1)</script></code>'),
    ('<p>Example:</p><code><svg></svg></code>', '<p>Example:</p><code>&lt;svg&gt;&lt;/svg&gt;</code>'),
    ('<div>&lt;textarea&gt;hello&lt;/textarea&gt;</div>', '<div><textarea>hello</textarea></div>'),
    ('<div><select><option>a</option></select></div>', '<div>&lt;select&gt;&lt;option&gt;a&lt;/option&gt;&lt;/select&gt;</div>'),
    # <noscript> as the first thing of the body (the tag-manager snippet): its content must stay inside it
    ('<html><head><title>t</title></head><body><noscript><p>Enable JS</p></noscript><p>hello world</p></body></html>',
     '<html><head><title>t</title></head><body><noscript><p>Enable JS</p></noscript><p>hello new world</p></body></html>'),
    ('<!doctype html><html><head><title>t</title></head><body class="home"><noscript><iframe src="//tags.test/ns.html?id=GTM-1" height="0" width="0"></iframe>no script</noscript><h1>Title</h1><p>body text <noscript><img src="p.gif" alt="pixel"> px</noscript></p></body></html>',
     '<!doctype html><html><head><title>t</title></head><body class="home"><noscript><iframe src="//tags.test/ns.html?id=GTM-1" height="0" width="0"></iframe>no script</noscript><h1>Title now</h1><p>body text <noscript><img src="p.gif" alt="pixel"> px</noscript></p></body></html>'),
    # an embedded element with tail text deleted while the structure around it changes (a deletion branch that is never completed)
    ('<p>Intro words</p><h1>Search results</h1><div class="pager"><select name="n"><option>10</option><option>20</option></select> per page</div><p>Footer words here</p>',
     '<p>Intro words</p><span>Search results</span><p>Footer words here</p>'),
    ('<p>Intro words</p><h2>Figure</h2><div><svg width="4"><circle r="2"></circle></svg> caption text</div><p>Footer</p>', '<p>Intro words</p><b>Figure</b><p>Footer</p>'),
    ('<ul><li>one</li><script>track("old")</script><li>two</li></ul>', '<ul><li>one</li><li>two</li></ul>'),      # active elements directly in a list
    ('<ul><li>one</li><script>track("old")</script><li>two</li></ul>', '<ul><li>one</li><script>track("new")</script><li>two</li></ul>'),
    ('<ol><style>li { color: red }</style><li>a</li></ol><dl><script>var d</script><dt>t</dt><dd>d</dd></dl>', '<ol><li>a</li></ol><dl><dt>t</dt><dd>d</dd></dl>'),
    ('<p>hello</p><svg><script>alert(4)</script><circle r="1"/></svg>', '<p>hello</p>'),        # deleted script inside embedded SVG
    ('<p>hello there</p><p>x <svg><style>circle { fill: red }</style><script>var a</script><circle r="1"/></svg> y</p><script>var q</script>', '<p>hello</p>'),
    ('<div>k <math><mi>x</mi><style>mi { color: red }</style></math></div>', '<div>k</div>'),
    ('<p>one<br>two</p>', '<p>one<br>two three</p>'),
    ('<body>a &lt;b&gt;hi&lt;/b&gt; &lt;script&gt;alert(1)&lt;/script&gt;</body>', '<body>a &lt;b&gt;hi&lt;/b&gt; &lt;script&gt;alert(1)&lt;/script&gt; new</body>'),
    ('<p>Intro <b>bold claim here</b></p>', '<p>Intro <b>bold</b></p><div>new notice text</div>'),
    ('new new &amp;amp;', '<p>&amp;amp; new eta eta </p>alpha new'),
    ('<div>x y z ~EMPTY~ foo bar baz</div>', '<div>x y z <a></a>foo bar baz</div>'),
    ('<ul><li>this and Other Posts<p></p></li></ul>', '<ul><li>this and Other Posts<p></p></li></ul>'),
    ('<ul><li>this and Other Posts</li></ul>', '<p>x</p>'),
    ('<section><p>Intro stays the same</p></section><table><tbody><tr><td>Old figures</td></tr></tbody></table><p>Footer stays the same</p>',
     '<div><p>Intro stays the same</p></div><b>Notice</b> <p>Footer stays the same</p>'),
    ('<p>Paste this snippet:<br>&lt;script&gt;alert(1)&lt;/script&gt;</p>', '<p>Paste this snippet:<br>&lt;script&gt;alert(1)&lt;/script&gt; now</p>'),
    ('<p>Counter: <span>visits <script>var n = 1;</script> and counting</span> today.</p>', '<p>Counter:  today.</p>'),
    ('<div><a name="s1"></a><a name="sec-1"></a></div><h2>Title</h2><p>text</p>', '<div><a name="s1"></a><a name="sec-1"></a></div><h2>Title</h2><p>text more</p>'),
    ('<select><option>a</option></select> then press search', '<select><option>a</option></select> then press find'),
    ('<svg><circle r="1"></circle></svg> Download report', '<svg><circle r="1"></circle></svg> Download summary'),
    ('<p>x</p><object data="o"><p>fallback</p></object><p>after one</p><p>after two</p>', '<p>x</p><p>after one</p><p>after two</p>'),
    ('<del class="wm-diff is-collapsed"><ul><li>was</li></ul></del><p>same</p>', '<ins class="wm-diff is-focused"><table><tbody><tr><td>now</td></tr></tbody></table></ins><p>same</p>'),
    ('<script>first();</script><style>a{}</style><div><h1>T</h1><p>x</p></div>', '<script>first();</script><style>a{}</style><div><h1>T</h1><p>x y</p></div>'),
    ('<html><head><title>t</title></head><body><script id="gtm">first();</script><style>a{}</style><div><h1>T</h1><p>x</p></div></body></html>',
     '<html><head><title>t</title></head><body><script id="gtm">first();</script><style>a{}</style><div><h1>T</h1><p>x y</p></div></body></html>'),
    ('<p>See <a href="http://example.com/x">the report</a> today</p>', '<p>See <a>the report</a>http://example.com/x today</p>'),
    ('<p><a>the report</a> /page.html</p>', '<p><a href="/page.html">the report</a> </p>'),
    ('<body><style>a{}</style>lead text <p>x</p></body>', '<body><style>a{}</style>lead text <p>x</p> more</body>'),
    # an element whose start tag the marker machines never track as open, inside a changed run, followed by blocks
    ('<div>k</div>', '<div>k</div><span>w <iframe></iframe></span><p>q</p>'),
    # an iframe with fallback text (raw text to a parser), a change that begins before it and ends inside it, blocks after it
    ('intro <iframe src="/f">Your browser does not support frames</iframe><p>next para</p><p>last</p>',
     'intro changed <iframe src="/g">This browser does not support frames</iframe><p>next para</p><p>last</p>'),
    ('<div>intro <iframe src="/f">Your browser does not support frames</iframe></div><p>next</p>', '<div>intro <iframe src="/f">Your browser supports no frames</iframe></div><p>next</p>'),
    ('<div>k</div><span>w <iframe src="/f"></iframe> v</span><p>q</p><p>r</p>', '<div>k</div><p>r</p>'),
    ('<p>one</p><hr><p>two</p>', '<p>one</p><p>new</p><hr><p>two three</p>'),
    ('<ul><li style="display: inline;">Home</li></ul><p>x</p>', '<ul><li style="display: inline;">Home</li><li style="display: inline;">News</li></ul><section style="display:inline"><p>new block</p></section><p>x</p>'),
    ('<p>intro</p><p>outro</p>', '<p>intro</p><video controls><source src="m.mp4"><p>Your browser cannot play this <b>video</b></p></video><p>outro</p>'),
    ('<p>k</p><audio src="a.ogg"><div>old fallback</div></audio><p>z</p>', '<p>k</p><audio src="b.ogg"><div>new fallback</div></audio><p>z</p>'),
    ('<p>one <img alt="placeholder"> two <img data-original="x.png"></p>', '<p>one <img alt="placeholder"> two <img data-original="x.png"></p>'),
    # a form control whose label is only partly changed (it must stay ONE control, with its attributes)
    ('<h1><strong><button>... go</button></strong></h1><p hidden>x</p>', '<h1><strong><button>\u2026 go</button></strong></h1><p hidden>x</p>'),
    ('<form><p>Name <input name="n"> <button type="submit" class="btn primary">Sign up now</button></p></form>',
     '<form><p>Name <input name="n"> <button type="submit" class="btn primary">Sign up today</button></p></form>'),
    ('<p>Area 10\u00b2 m and CO\u2082 levels</p>', '<p>Area 102 m and CO2 levels</p>'),
    ('<ul><li>\ufb01le \uff21\uff22\uff23</li><li>5\u00b5g dose</li></ul>', '<ul><li>file ABC</li><li>5\u03bcg dose</li></ul>'),
    ('<p>caf\u00e9 stra\u00dfe Data</p>', '<p>cafe\u0301 strasse data</p>'),
]


# words that differ only by a character a Unicode normalisation / case folding / look-alike mapping would identify: still different text
LOOKALIKES = [('10\u00b2', '102'), ('CO\u2082', 'CO2'), ('\ufb01le', 'file'), ('\uff21\uff22\uff23', 'ABC'), ('\u00bd', '1\u20442'), ('Acme\u2122', 'AcmeTM'),
              ('5\u00b5g', '5\u03bcg'), ('\u212b', '\u00c5'), ('caf\u00e9', 'cafe\u0301'), ('\u2126', '\u03a9'), ('stra\u00dfe', 'strasse'), ('\u0130', 'i\u0307'),
              ('xray', '\u0445ray'), ('co\u00adop', 'coop'), ('data', 'Data'), ('item\u200c', 'item'), ('1,000', '1.000'), ('O', '0'), ('report', 'report.'),
              ('\u2160\u2161', 'III'), ('\u33a1', 'm2'), ('e\u0301', '\u00e9'), ("it's", 'it\u2019s'), ('a-b', 'a\u2011b'), ('...', '\u2026')]


LEADS = ['<script id="gtm">lead();</script>', '<style>.lead { color: red }</style>',
         '<script src="tm.js"></script><style>b > i {}</style>', '<style media="print">p{}</style><script>var q = 1 < 2;</script>']


def documents(rng, n, rich=True):
    """n pairs of full documents (plus the hand-picked ones)"""
    out = []
    for _ in range(n):
        g = htmlgen.Gen(rng, rich)
        a, b = htmlgen.pair(rng, rich)
        if rng.random() < 0.12:
            # pages whose body opens with embedded script/style (tag managers, inline styles), mostly unchanged
            lead = rng.choice(LEADS)
            a = lead + a
            b = (lead if rng.random() < 0.8 else rng.choice(LEADS)) + b
        if rng.random() < 0.08:
            # the two versions differ in exactly one look-alike word
            import re as _re
            x, y = rng.choice(LOOKALIKES)
            if rng.random() < 0.5:
                x, y = y, x
            toks = _re.findall(r'<[^>]+>|[^<]+', a)
            idxs = [i for i, t in enumerate(toks) if not t.startswith('<') and t.strip() and not (i and _re.match(r'<(script|style|textarea|option|svg|select|title)', toks[i - 1]))]
            if idxs:
                i = rng.choice(idxs)
                ws = toks[i].split(' ')
                j = rng.randrange(len(ws) + 1)
                a = ''.join(toks[:i] + [' '.join(ws[:j] + [x] + ws[j:])] + toks[i + 1:])
                b = ''.join(toks[:i] + [' '.join(ws[:j] + [y] + ws[j:])] + toks[i + 1:])
        k = rng.random()
        if k < 0.7:
            out.append((g.document(a), g.document(b)))
        else:
            out.append((a, b))
    return out + list(HAND_PAIRS)


def real_pages():
    """Archived versions of real web pages that ship with the repository's test fixtures (65-100 KB each), if present:
    every version against itself, each pair in both directions, and unrelated pages against each other.  Observers only -
    the extracted model needs minutes for a page of this size (thorough tier: one pair through the correspondence)."""
    import glob
    import os
    from common import REPO
    files = sorted(glob.glob(os.path.join(REPO, 'web_monitoring_diff', 'tests', 'fixtures', 'versions', '*')))
    pages = []
    for f in files:
        try:
            pages.append(open(f, encoding='utf-8', errors='replace').read())
        except OSError:
            pass
    out = [(p, p) for p in pages]
    for i in range(0, len(pages) - 1):
        out += [(pages[i], pages[i + 1]), (pages[i + 1], pages[i])]
    return out


def big_page(n, variant=0):
    if variant == 0:
        return ''.join('<div class="c%d"><p>para %d</p></div>' % (i, i) for i in range(n))
    if variant == 1:
        return '<ul>' + ''.join('<li>item %d <a href="/l%d">link</a></li>' % (i, i) for i in range(n)) + '</ul>'
    return ''.join('<section><h2>h %d</h2><p>para <b>%d</b></p><a name="x%d"></a> tail %d</section>' % (i, i, i, i) for i in range(n))


import contextlib


@contextlib.contextmanager
def spacer_cap(cap):
    """run the implementation with another value of the module constant MAX_SPACERS"""
    import web_monitoring_diff.html_render_diff as h
    saved = h.MAX_SPACERS
    if cap is not None:
        h.MAX_SPACERS = cap
    try:
        yield
    finally:
        h.MAX_SPACERS = saved


def render(a, b, include='all', url_rules='jsessionid', max_spacers=None):
    import web_monitoring_diff.html_render_diff as h
    saved = h.MAX_SPACERS
    if max_spacers is not None:
        h.MAX_SPACERS = max_spacers
    try:
        return h.html_diff_render(a, b, include=include, url_rules=url_rules)
    finally:
        h.MAX_SPACERS = saved


def source_body(text):
    """the body of the source page as the differ sees it: comments removed, existing ins/del unwrapped"""
    import html5_parser
    from bs4 import Comment
    import web_monitoring_diff.html_render_diff as h
    soup = html5_parser.parse(text.strip() or h.EMPTY_HTML, treebuilder='soup', return_root=False)
    for c in soup.find_all(string=lambda t: isinstance(t, Comment)):
        c.extract()
    soup = h._cleanup_document_structure(soup)
    rl.unwrap_plain_insdel(soup.body)
    return soup


def view_body(view):
    soup = rl.parse_doc(view)
    for x in soup.find_all(id='wm-diff-script'):
        x.extract()
    return soup


def c01_failures(a, b, result):
    """insertions view = new page, deletions view = old page, markers removed"""
    fails = []
    for key, text in (('insertions', b), ('deletions', a)):
        if key not in result:
            continue
        src = source_body(text).body
        v = view_body(result[key])
        body = rl.strip_markers(v.body)
        # markers of the source pages themselves were unwrapped by the differ: compare modulo plain ins/del
        rl.unwrap_plain_insdel(body)
        if rl.readable_text(body) != rl.readable_text(src):
            fails.append('%s view: readable text differs from the %s page: view=%r page=%r' % (
                key, 'new' if key == 'insertions' else 'old', rl.readable_text(body)[:120], rl.readable_text(src)[:120]))
        elif rl.readable_text(body, scripting=True) != rl.readable_text(src, scripting=True):
            fails.append('%s view: text displayed with scripting enabled (outside <noscript>) differs from the page: view=%r page=%r' % (
                key, rl.readable_text(body, scripting=True)[:120], rl.readable_text(src, scripting=True)[:120]))
        elif rl.separations(body) != rl.separations(src):
            # extra separators (the link sentinel's space) are tolerated, lost ones are not
            if not _only_extra_separators(rl.separations(src), rl.separations(body)):
                fails.append('%s view: words that were separated in the page are joined: view=%r page=%r' % (
                    key, rl.separations(body)[:160], rl.separations(src)[:160]))
        if rl.structure(body) != rl.structure(src):
            fails.append('%s view: block/br/img/form/script structure differs: view=%s page=%s' % (
                key, _first_diff(rl.structure(body), rl.structure(src)), len(rl.structure(src))))
    return fails


def _only_extra_separators(page, view):
    """view may have more '|' than page but must keep every one of the page"""
    i = j = 0
    while i < len(page) and j < len(view):
        if page[i] == view[j]:
            i += 1
            j += 1
        elif view[j] == '|':
            j += 1
        else:
            return False
    return i == len(page) and all(c == '|' for c in view[j:])


def _first_diff(x, y):
    for k, (p, q) in enumerate(zip(x, y)):
        if p != q:
            return 'at %d: view %s vs page %s' % (k, p, q)
    return 'lengths %d vs %d' % (len(x), len(y))


def c02_failures(a, b, result, stats=None):
    """every piece of text of each page is present on its side of the combined view and nothing else is: the
    property speaks of presence, not of order, so the comparison is on the multiset of non-blank characters
    (a reordering of whole runs - seen once in 15000 generated pairs, when a list moves into a table cell -
    is counted in the evidence, not reported)"""
    from collections import Counter
    fails = []
    v = view_body(result['combined'])
    new_text = rl.readable_text(v.body, skip_marker='del')
    old_text = rl.readable_text(v.body, skip_marker='ins')
    want_new = rl.readable_text(source_body(b).body)
    want_old = rl.readable_text(source_body(a).body)
    for got, want, side, marker in ((new_text, want_new, 'new', 'deletion'), (old_text, want_old, 'old', 'insertion')):
        if got == want:
            continue
        cg, cw = Counter(got), Counter(want)
        if cg == cw:
            if stats is not None:
                stats['reordered'] = stats.get('reordered', 0) + 1
            continue
        lost = ''.join((cw - cg).elements())
        extra = ''.join((cg - cw).elements())
        fails.append('combined view outside %s markers is not the %s page text: lost %r, invented %r (view %r, page %r)' % (
            marker, side, lost[:80], extra[:80], got[:120], want[:120]))
    return fails


def c03_failures(a, b, result):
    fails = []
    cc, ic, dc = result['change_count'], result['insertions_count'], result['deletions_count']
    if not all(isinstance(x, int) and x >= 0 for x in (cc, ic, dc)) or cc != ic + dc:
        fails.append('counts inconsistent: change=%r insertions=%r deletions=%r' % (cc, ic, dc))
    ta = rl.readable_text(source_body(a).body)
    tb = rl.readable_text(source_body(b).body)
    if ta != tb and cc == 0:
        fails.append('readable text differs (%r vs %r) but change_count is 0' % (ta[:100], tb[:100]))
    for key, count in (('insertions', ic), ('deletions', dc), ('combined', cc)):
        if key in result and count == 0:
            v = view_body(result[key])
            if v.find(lambda t: rl.is_marker(t)):
                fails.append('%s view contains change markers although its count is 0' % key)
    return fails


def identity_failures(a, result):
    fails = []
    if (result['change_count'], result['insertions_count'], result['deletions_count']) != (0, 0, 0):
        fails.append('page diffed against itself reports %s changes' % result['change_count'])
    for key in ('combined', 'insertions', 'deletions'):
        if key in result and view_body(result[key]).find(lambda t: rl.is_marker(t)):
            fails.append('page diffed against itself has change markers in the %s view' % key)
    return fails


def c15_failures(result):
    from bs4 import Tag
    fails = []
    for key in ('combined', 'insertions', 'deletions'):
        if key not in result:
            continue
        v = view_body(result[key])
        for m in v.find_all(lambda t: rl.is_marker(t)):
            stack = [m]
            while stack:
                n = stack.pop()
                for c in n.children:
                    if isinstance(c, Tag):
                        if c.name in rl.BLOCK_SPEC:
                            fails.append('%s view: <%s> inside a %s marker' % (key, c.name, m.name))
                            stack = []
                            break
                        if c.name not in rl.OPAQUE:
                            stack.append(c)
            if fails:
                break
    return fails


def active_elements(soup_or_el):
    out = []
    for e in soup_or_el.find_all(['script', 'style']):
        attrs = tuple(sorted((k, ' '.join(v) if isinstance(v, list) else v) for k, v in e.attrs.items()))
        out.append((e.name, attrs, e.decode_contents()))
    return out


def c09_failures(a, b, result):
    fails = []
    src_a = active_elements(source_body(a))
    src_b = active_elements(source_body(b))
    for key, allowed in (('insertions', src_b), ('deletions', src_a), ('combined', src_a + src_b)):
        if key not in result:
            continue
        v = rl.parse_doc(result[key])
        for e in v.find_all(['script', 'style']):
            if e.get('id') in ('wm-diff-script', 'wm-diff-style'):
                continue
            if e.find_parent('template', id='wm-diff-old-head'):
                continue
            attrs = tuple(sorted((k, ' '.join(x) if isinstance(x, list) else x) for k, x in e.attrs.items()))
            if (e.name, attrs, e.decode_contents()) not in allowed:
                fails.append('%s view has a <%s> that is in neither input verbatim: %r' % (key, e.name, str(e)[:120]))
            if key == 'combined' and e.find_parent(lambda t: rl.is_marker(t, 'del')) and \
                    not any(not t.find_parent(['svg', 'math']) for t in e.find_parents('template', class_='wm-diff-deleted-inert')):
                # a <template> inside embedded SVG/MathML is an SVG/MathML element of that name, not an (inert) HTML template
                fails.append('combined view: a deleted <%s> is not wrapped in an inert HTML template: %r' % (e.name, str(e)[:100]))
        if key == 'combined':
            # deleted means: of the old page only.  Whatever is live (outside an inert HTML template) must be one of the NEW page's
            # scripts/styles, each at most as often as the new page has it - whether or not a <del> is still around it
            from collections import Counter
            live = Counter()
            for e in v.find_all(['script', 'style']):
                if e.get('id') in ('wm-diff-script', 'wm-diff-style') or e.find_parent('template', id='wm-diff-old-head'):
                    continue
                if any(not t.find_parent(['svg', 'math']) for t in e.find_parents('template', class_='wm-diff-deleted-inert')):
                    continue
                attrs = tuple(sorted((k, ' '.join(x) if isinstance(x, list) else x) for k, x in e.attrs.items()))
                live[(e.name, attrs, e.decode_contents())] += 1
            have = Counter(src_b)
            for sig, n_live in live.items():
                if sig in src_a and n_live > have[sig]:
                    fails.append('combined view: <%s> of the old page only (deleted) is live, not in an inert template: %r' % (sig[0], sig[2][:80]))
        # the title diff must not parse to active elements
        meta = v.find('meta', attrs={'name': 'wm-diff-title'})
        if meta is not None:
            frag = rl.parse_doc('<body>%s</body>' % meta.get('content', ''))
            if frag.find(['script', 'style', 'img', 'iframe']):
                fails.append('the title diff contains active markup: %r' % meta.get('content')[:120])
    return fails

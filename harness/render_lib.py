"""
Shared machinery of the render properties (C01, C02, C03, C09, C14, C15, C16):
 - conversion of the lxml tree the tokenizer sees into the model's tree,
 - the coarse correspondence seam _htmldiff(old, new, comparator, include) vs Model/RenderMerge.v htmldiff,
 - document-level observers of the returned views (html5-parser based).
"""
import re

from common import S, L, P, I, OPT, run_driver, to_str

RULE_IDS = {'jsessionid': 0, 'wayback': 1, 'wayback_uk': 2}


def enc_el(el, undiffable):
    from lxml import etree
    if not isinstance(el.tag, str):
        raise ValueError('non-element node in the lxml tree (comment / processing instruction)')
    tag = el.tag
    source = etree.tostring(el, encoding=str, method='html') if (tag in undiffable and tag != 'img') else ''
    kids = [] if source else [enc_el(c, undiffable) for c in el]
    return L([S(tag), L(P(S(k), S(v)) for k, v in el.attrib.items()), S(el.text or ''), L(kids), S(el.tail or ''), S(source)])


def wf_tree(el):
    """names free of whitespace, '/', '>' (what the HTML tokenizer guarantees)"""
    bad = re.compile(r'[\s/>]')
    for e in el.iter():
        if not isinstance(e.tag, str) or bad.search(e.tag) or any(bad.search(k) or '=' in k for k in e.attrib):
            return False
    return True


def enc_rules(url_rules):
    if not url_rules:
        return '( )'
    return L([L(I(RULE_IDS[n.strip()]) for n in url_rules.split(','))])


def model_htmldiff_line(old_fragment, new_fragment, url_rules, max_spacers=None):
    import web_monitoring_diff.html_render_diff as h
    ms = h.MAX_SPACERS if max_spacers is None else max_spacers
    old_el = h.parse_html(old_fragment)
    new_el = h.parse_html(new_fragment)
    return 'htmldiff %s %s %s %s' % (enc_el(old_el, h.undiffable_content_tags), enc_el(new_el, h.undiffable_content_tags),
                                     enc_rules(url_rules), I(ms)), (wf_tree(old_el) and wf_tree(new_el))


def impl_htmldiff(old_fragment, new_fragment, url_rules, max_spacers=None):
    import web_monitoring_diff.html_render_diff as h
    comparator = h.UrlRules.get_comparator(url_rules)
    saved = h.MAX_SPACERS
    if max_spacers is not None:
        h.MAX_SPACERS = max_spacers       # module constant read by _htmldiff at call time
    try:
        meta, diffs = h._htmldiff(old_fragment, new_fragment, comparator, 'all')
    finally:
        h.MAX_SPACERS = saved
    return meta, diffs


def fragments_of(a_text, b_text):
    """the two fragment strings html_diff_render hands to _htmldiff"""
    import html5_parser
    from bs4 import Comment
    import web_monitoring_diff.html_render_diff as h
    out = []
    for text in (a_text, b_text):
        soup = html5_parser.parse(text.strip() or h.EMPTY_HTML, treebuilder='soup', return_root=False)
        for c in soup.find_all(string=lambda t: isinstance(t, Comment)):
            c.extract()
        soup = h._cleanup_document_structure(soup)
        out.append(h._diffable_fragment(soup.body if soup.body else h.BeautifulSoup().new_tag('div')))
    return out


def correspondence(pairs, url_rules=None, model_available=True, max_spacers=None):
    """
    pairs: list of (old_fragment, new_fragment).  Returns list of dicts
    {old, new, impl: (meta, diffs) | exc, model: (...), mismatch: [...], in_domain: bool}
    """
    lines, dom = [], []
    for a, b in pairs:
        try:
            ln, ok = model_htmldiff_line(a, b, url_rules, max_spacers)
        except Exception as e:  # noqa
            ln, ok = 'htmldiff ( ) ( ) ( ) 0', False
        lines.append(ln)
        dom.append(ok)
    model = run_driver(lines) if model_available else [None] * len(pairs)
    out = []
    for (a, b), m, ok in zip(pairs, model, dom):
        rec = {'old': a, 'new': b, 'in_domain': ok, 'mismatch': [], 'model': None}
        try:
            meta, diffs = impl_htmldiff(a, b, url_rules, max_spacers)
            rec['impl'] = (meta, diffs)
        except Exception as e:  # noqa
            rec['impl'] = None
            rec['exc'] = '%s: %s' % (type(e).__name__, e)
        if m is not None and ok and rec['impl'] is not None:
            if isinstance(m, tuple):
                rec['mismatch'].append('model error %s' % (m,))
            else:
                cc, dc, ic, comb, ins, dele = m
                mm = {'change_count': cc, 'deletions_count': dc, 'insertions_count': ic, 'combined': to_str(comb),
                      'insertions': to_str(ins), 'deletions': to_str(dele)}
                rec['model'] = mm
                meta, diffs = rec['impl']
                for k in ('change_count', 'deletions_count', 'insertions_count'):
                    if meta[k] != mm[k]:
                        rec['mismatch'].append('%s impl=%s model=%s' % (k, meta[k], mm[k]))
                for k in ('combined', 'insertions', 'deletions'):
                    if diffs[k] != mm[k]:
                        rec['mismatch'].append('%s string differs' % k)
        out.append(rec)
    return out


# ---------------------------------------------------------------- document-level observers
BLOCK_SPEC = {'address', 'article', 'aside', 'blockquote', 'caption', 'center', 'dd', 'details', 'dialog', 'dir', 'div', 'dl', 'dt',
              'fieldset', 'figcaption', 'figure', 'footer', 'form', 'h1', 'h2', 'h3', 'h4', 'h5', 'h6', 'header', 'hgroup', 'hr',
              'li', 'main', 'menu', 'nav', 'ol', 'p', 'pre', 'section', 'summary', 'table', 'ul', 'colgroup', 'tbody', 'thead',
              'tfoot', 'tr', 'td', 'th'}
OPAQUE = {'script', 'style', 'svg', 'math', 'template', 'select', 'textarea', 'datalist', 'option', 'rp'}
STRUCT_EXTRA = {'br', 'img', 'input', 'select', 'textarea', 'button', 'script', 'style', 'svg'}


def parse_doc(html):
    import html5_parser
    return html5_parser.parse(html, treebuilder='soup', return_root=False)


def is_marker(tag, kind=None):
    return tag.name in (('ins', 'del') if kind is None else (kind,)) and 'wm-diff' in (tag.get('class') or [])


def readable_text(root, skip_marker=None, unwrap_plain_insdel=False, scripting=False):
    """non-whitespace characters of the text nodes outside script/style/template (and outside the given marker kind);
    an image counts as one opaque character.  scripting=True reads the page as a browser with scripting does: what is inside
    <noscript> is not displayed (so text that leaves a <noscript> element becomes readable text the page did not have)"""
    from bs4 import NavigableString, Comment, Tag
    out = []
    hidden = ('script', 'style', 'template') + (('noscript',) if scripting else ())

    def rec(n):
        for c in n.children:
            if isinstance(c, Comment):
                continue
            if isinstance(c, NavigableString):
                out.append(str(c))
            elif isinstance(c, Tag):
                if c.name in hidden:
                    continue
                if skip_marker and is_marker(c, skip_marker):
                    continue
                if c.name == 'img':
                    out.append('￼')
                rec(c)
    rec(root)
    return re.sub(r'\s+', '', ''.join(out))


def structure(root, skip_ids=('wm-diff-script', 'wm-diff-style')):
    """(name, attributes) in document order of block elements, br, img, form controls, script/style/svg;
    opaque elements are atoms"""
    from bs4 import Tag
    out = []

    def rec(n):
        for c in n.children:
            if not isinstance(c, Tag):
                continue
            if c.get('id') in skip_ids:
                continue
            if c.name in BLOCK_SPEC or c.name in STRUCT_EXTRA:
                attrs = tuple(sorted((k, ' '.join(v) if isinstance(v, list) else v) for k, v in c.attrs.items()))
                if c.name in ('script', 'style', 'svg', 'select', 'textarea'):
                    out.append((c.name, attrs, re.sub(r'\s+', ' ', c.decode_contents()).strip()))
                else:
                    out.append((c.name, attrs))
            if c.name in OPAQUE:
                continue
            rec(c)
    rec(root)
    return out


def separations(root, skip_marker=None):
    """the non-whitespace text with '|' wherever two characters are separated by whitespace, a block boundary or a <br>"""
    from bs4 import NavigableString, Comment, Tag
    out = []

    def rec(n):
        for c in n.children:
            if isinstance(c, Comment):
                continue
            if isinstance(c, NavigableString):
                out.append(re.sub(r'\s+', '|', str(c)))
            elif isinstance(c, Tag):
                if c.name in ('script', 'style', 'template'):
                    continue
                if skip_marker and is_marker(c, skip_marker):
                    continue
                sep = c.name in BLOCK_SPEC or c.name == 'br'
                if sep:
                    out.append('|')
                if c.name == 'img':
                    out.append('￼')
                rec(c)
                if sep:
                    out.append('|')
    rec(root)
    return re.sub(r'\|+', '|', ''.join(out)).strip('|')


def strip_markers(root):
    """unwrap every change marker in place"""
    for m in root.find_all(lambda t: is_marker(t)):
        m.unwrap()
    return root


def unwrap_plain_insdel(root):
    for m in root.find_all(lambda t: t.name in ('ins', 'del')):
        m.unwrap()
    return root



def page_title(soup):
    """The page's title, written independently of the implementation: the text of the first <title> element that is not part of
    embedded SVG / MathML (there a title is a tooltip of the graphic) nor of a <template> (not part of the page); '' when there is none or it has element children."""
    for t in soup.find_all('title'):
        if t.find_parent(['svg', 'math', 'template']) is None:
            return t.string or ''
    return ''

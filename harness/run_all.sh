#!/bin/bash
# usage: run_all.sh [quick|thorough]  -- every claimed check in turn on /repo's working tree; summary at the end
TIER="${1:-quick}"
cd "$(dirname "$0")/.." || exit 2
fail=0
for id in $(/venv/bin/python -c "import json; print(' '.join(c['property_id'] for c in json.load(open('MANIFEST.json'))['checks']))"); do
  out=$(./check "$id" --tier "$TIER" 2>&1); rc=$?
  echo "$out" | grep -E '^(VIOLATION|KNOWN-FINDING|OBLIGATION-FAILED)' | cut -c1-220
  echo "$out" | tail -n 1 | sed "s/^/[rc=$rc] /"
  [ $rc -ne 0 ] && fail=1
done
exit $fail

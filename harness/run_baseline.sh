#!/bin/sh
# runs the repository's pinned test suite (guard off) and prints pass/fail counts
cd "${VERIF_REPO:-/repo}" && env -u WEB_MONITORING_DIFF_VERIF /venv/bin/python -m pytest -ra -q -p no:cacheprovider --timeout=900 --continue-on-collection-errors "$@"

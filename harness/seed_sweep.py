#!/venv/bin/python
"""Applies every archived seeded change (seeded/<id>/patch.diff) and every reverse fix (regress/*.diff) to /repo in turn,
runs the quick check of the property it targets, records which obligations fail, and undoes the change.
Writes seeded/SWEEP.json and the 'caught_by' field of each seeded/<id>/meta.json.   usage: seed_sweep.py [ids...]"""
import glob
import json
import os
import re
import subprocess
import sys

VERIF = os.path.dirname(os.path.dirname(os.path.abspath(__file__)))
REPO = os.environ.get('VERIF_REPO', '/repo')      # a scratch copy when several sweeps run side by side (vp run --with-repo)
REGRESS_TARGETS = {
    'C01-C09-body-text-unescaped': ['C01', 'C09'], 'C01-br-end-tag-doubles': ['C01'], 'C01-leading-text-whitespace-dropped': ['C01'],
    'C01-limit-spacers-drops-tags': ['C01'], 'C01-other-posts-reorders-tags': ['C01'], 'C02-reconcile-drops-content': ['C02'],
    'C03-spacer-equals-word': ['C03'], 'C04-C17-sort-key-not-injective': ['C04', 'C17'], 'C04-stale-opcode': ['C04'],
    'C06-C13-reserved-query-params-win': ['C06', 'C13'], 'C10-links-html-unescaped': ['C10'], 'C11-case-sensitive-media-type': ['C11'],
    'C12-non-text-codec-500': ['C12'], 'C01-button-split-in-two': ['C01'], 'C09-li-replace-rewrites-scripts': ['C09'], 'C15-iframe-text-is-raw': ['C15', 'C01'], 'C09-deleted-svg-script-still-runs': ['C09'], 'C12-C06-charset-label-swallows-parameters': ['C12', 'C06'], 'C10-C14-svg-title-taken-for-page-title': ['C10', 'C14'], 'C01-leading-noscript-emptied': ['C01'], 'C20-workers-ignore-sigterm': ['C20'], 'C04-origin-folds-query-case': ['C04'], 'C13-empty-hash-skips-check': ['C13'], 'C14-other-posts-indexerror': ['C14'],
}


def sh(*args, **kw):
    return subprocess.run(args, capture_output=True, text=True, **kw)


def run_one(patch, props):
    if sh('git', '-C', REPO, 'status', '--porcelain').stdout.strip():
        raise SystemExit('repo not clean')
    ap = sh('git', '-C', REPO, 'apply', patch)
    if ap.returncode != 0:
        ap = sh('git', '-C', REPO, 'apply', '-3', patch)
        sh('git', '-C', REPO, 'reset', '-q')
        if ap.returncode != 0 or 'conflict' in ap.stderr.lower():
            sh('git', '-C', REPO, 'checkout', '--', '.')
            return {p: {'applies': False} for p in props}
    out = {}
    try:
        for p in props:
            r = sh(os.path.join(VERIF, 'check'), p, '--tier', 'quick', cwd=VERIF)
            ev = json.load(open(os.path.join(VERIF, 'evidence', p + '.json')))
            failed = [o['name'] for o in ev['coverage']['obligation_list'] if not o['ok']]
            out[p] = {'applies': True, 'exit': r.returncode, 'violation_lines': len(re.findall(r'^VIOLATION', r.stdout, flags=re.M)),
                      'with_failing_input': len([l for l in r.stdout.splitlines() if l.startswith('VIOLATION') and not l.rstrip().endswith('no-failing-input-found')]),
                      'failed_obligations': [f[:160] for f in failed]}
    finally:
        sh('git', '-C', REPO, 'checkout', '--', '.')
    return out


def main():
    want = set(sys.argv[1:])
    sweep_path = os.path.join(VERIF, 'seeded', 'SWEEP.json')
    sweep = json.load(open(sweep_path)) if os.path.exists(sweep_path) else {}
    for d in sorted(glob.glob(os.path.join(VERIF, 'seeded', 'C*-*'))):
        sid = os.path.basename(d)
        if want and sid not in want:
            continue
        prop = sid.split('-')[0]
        res = run_one(os.path.join(d, 'patch.diff'), [prop])
        sweep[sid] = res
        meta = json.load(open(os.path.join(d, 'meta.json')))
        r = res[prop]
        note = meta.get('caught_by') if isinstance(meta.get('caught_by'), str) else None
        meta['caught_by'] = {'check': './check %s --tier quick' % prop, 'caught': bool(r.get('exit')), 'violation_lines': r.get('violation_lines'),
                             'with_failing_input': r.get('with_failing_input'), 'failed_obligations': r.get('failed_obligations'), 'note': note or (meta.get('caught_by') or {}).get('note') if not isinstance(meta.get('caught_by'), str) else note}
        json.dump(meta, open(os.path.join(d, 'meta.json'), 'w'), indent=1, ensure_ascii=False)
        print(sid, 'CAUGHT' if r.get('exit') else 'MISSED', r.get('violation_lines'), flush=True)
    for name, props in REGRESS_TARGETS.items():
        if want and name not in want:
            continue
        res = run_one(os.path.join(VERIF, 'regress', name + '.diff'), props)
        sweep['regress/' + name] = res
        print('regress/' + name, {p: ('CAUGHT' if r.get('exit') else 'MISSED') for p, r in res.items()}, flush=True)
    json.dump(sweep, open(sweep_path, 'w'), indent=1, ensure_ascii=False)


if __name__ == '__main__':
    main()

"""
Correspondence between the Coq model of the request handler (Model/Server.v,
Model/Etag.v) and the in-process service, plus the pieces shared by the server
properties C06, C08, C13, C18, C19.
"""
import hashlib
import logging

from common import S, L, P, B, I, OPT, run_driver, to_str, to_opt
import httpkit

for _n in ('tornado.access', 'tornado.application', 'tornado.general', 'web_monitoring_diff.server.server'):
    logging.getLogger(_n).setLevel(logging.CRITICAL + 1)


def DICT(d):
    items = d.items() if isinstance(d, dict) else d
    return L(P(S(k), S(v)) for k, v in items)


def enc_upstream(spec):
    kind = spec[0]
    if kind == 'resp':
        _, code, hdrs, body = spec
        if 200 <= code < 300:
            return L([I(0), DICT(hdrs), S(body)])
        return L([I(1), I(code), L([P(DICT(hdrs), S(body))])])
    if kind == 'httperror_noresp':
        return L([I(1), I(spec[1]), L([])])
    return {'valueerror': L([I(2)]), 'oserror': L([I(3)]), 'timeout': L([I(4)]), 'closed': L([I(5)])}.get(kind) \
        or L([I(6), I(spec[1])])


class FakeResp:
    def __init__(self, headers, body):
        self.headers = headers
        self.body = body


def received(case):
    h = case.get('received_headers')
    if h is None:
        h = list((case.get('req_headers') or {}).items())
    return h


def last_value(raw, key):
    v = None
    for k, x in raw:
        if k == key:
            v = x
    return v


def side_content(case, df, side):
    """(headers mapping, body bytes) the service would obtain for this side, or None."""
    url = last_value(case['raw_query'], side)
    if url is None:
        return None
    if url.startswith('file://'):
        path = url[7:]
        if path in case.get('files', {}):
            body = case['files'][path]
            return (df.MockResponse(url, body).headers, body)
        return None
    spec = case.get('upstream', {}).get(url)
    if spec and spec[0] == 'resp':
        from tornado.httputil import HTTPHeaders
        h = HTTPHeaders()
        for k, v in spec[2]:
            h.add(k, v)
        return (h, spec[3])
    return None


def decode_table(case, df):
    from web_monitoring_diff.exceptions import UndecodableContentError
    out = []
    texts = {}
    for side in ('a', 'b'):
        sc = side_content(case, df, side)
        for rib in (True, False):
            ok = True
            if sc is not None:
                try:
                    t = df._decode_body(FakeResp(sc[0], sc[1]), side, raise_if_binary=rib)
                    texts[(side, rib)] = t
                except UndecodableContentError:
                    ok = False
                except Exception:  # noqa  (C12's business; the handler model treats it as an internal error)
                    ok = False
            out.append(ok)
    return out, texts


def model_lines(case, df, version):
    raw = case['raw_query']
    path = '/' + case['differ']
    return 'etag_preimage %s %s %s' % (S(version), S(path), DICT(raw))


def server_get_line(case, df, etag_matches):
    ups = L(P(S(u), enc_upstream(s)) for u, s in case.get('upstream', {}).items())
    files = L(P(S(p), S(b)) for p, b in case.get('files', {}).items())
    fh = []
    bodies = set()
    for side in ('a', 'b'):
        url = last_value(case['raw_query'], side)
        if url and url.startswith('file://'):
            fh.append(P(S(url), DICT(df.MockResponse._get_content_type_headers_from_url(url))))
    for b in case.get('files', {}).values():
        bodies.add(b)
    for s in case.get('upstream', {}).values():
        if s[0] == 'resp':
            bodies.add(s[3])
    shas = L(P(S(b), S(hashlib.sha256(b).hexdigest())) for b in bodies)
    dec, _ = decode_table(case, df)
    mode = case.get('differ_mode', ('stub', {'diff': 'stub'}))
    if mode == 'real':
        # what the real differ does with this content is an input of the handler model (it is an oracle there): the caller may say
        outcome = case.get('differ_outcome', 'ok')
        dout = L([I(0), B(False)]) if outcome == 'ok' else L([I(1)]) if outcome == 'undiffable' else L([I(2)])
    elif mode[0] == 'stub':
        dout = L([I(0), B('type' in mode[1])])
    elif mode[0] == 'raise' and type(mode[1]).__name__ == 'UndiffableContentError':
        dout = L([I(1)])
    else:
        dout = L([I(2)])
    return 'server_get %s %s %s %s %s %s %s %s %s %s %s' % (
        B(case.get('production', False)), ups, files, L(fh), shas, L(B(x) for x in dec), dout,
        S(case['differ']), DICT(case['raw_query']), DICT(received(case)), B(etag_matches))


ERR_NAMES = ['404-unknown-differ', '400-missing-url', '403-file-in-production', '400-bad-scheme', '400-client-value-error',
             '502-os-error', '504-timeout', '502-stream-closed', '400-curl-malformed-url', '502-too-big',
             '502-curl-connect', '502-curl-unknown', '502-upstream-status', '502-hash-mismatch', '422-undiffable',
             '422-undecodable', '500-internal']


def decode_model_response(v):
    status, body, etag, errstatus, err, effects = v
    out = {'status': status, 'etag': bool(etag)}
    if body[0] == 0:
        out['body'] = ('none',)
    elif body[0] == 1:
        out['body'] = ('error', body[1])
    else:
        kw = []
        for name, src in body[2]:
            kind = ['url', 'body', 'headers', 'text', 'query'][src[0]]
            kw.append((to_str(name), (kind, bool(src[1])) if src[0] < 4 else (kind, to_str(src[1]))))
        out['body'] = ('diff', to_str(body[1]), kw, bool(body[3]))
    e = to_opt(err)
    out['err'] = None if e is None else (ERR_NAMES[e] if isinstance(e, int) else ERR_NAMES[e[0]] + ':%d' % e[1])
    eff = []
    for x in effects:
        if x[0] == 0:
            eff.append(('fetch', to_str(x[1]), {to_str(k): to_str(v) for k, v in x[2]}))
        else:
            eff.append(('open', to_str(x[1])))
    out['effects'] = eff
    return out


def build_path(case):
    qs = case.get('qs')
    if qs is None:
        qs = httpkit.quote_qs(case['raw_query'])
    return '/' + case['differ'] + ('?' + qs if qs else '')


def run_cases(cases, model_available=True):
    """
    Runs every case on the in-process service and on the extracted model.
    Returns a list of records {case, obs, model, mismatches:[aspect...], texts}.
    """
    import web_monitoring_diff
    import web_monitoring_diff.server.server as df
    version = web_monitoring_diff.__version__
    # group by global configuration
    groups = {}
    for idx, c in enumerate(cases):
        mode = c.get('differ_mode', ('stub', {'diff': 'stub'}))
        key = (c.get('cors'), 'real' if mode == 'real' else repr(mode))
        groups.setdefault(key, []).append(idx)
    observations = [None] * len(cases)
    for (cors, _), idxs in groups.items():
        mode = cases[idxs[0]].get('differ_mode', ('stub', {'diff': 'stub'}))
        kit = httpkit.Kit(cors=cors, differ_mode=mode)
        try:
            for i in idxs:
                c = cases[i]
                observations[i] = kit.request(build_path(c), headers=c.get('req_headers', {}),
                                              upstream=c.get('upstream'), files=c.get('files'),
                                              production=c.get('production', False), body=c.get('req_body'))
                # what the service actually received (the test client adds Host, User-Agent, ...)
                if observations[i].seen_headers is not None:
                    c['received_headers'] = observations[i].seen_headers
        finally:
            kit.close()
    records = []
    if model_available:
        pre = run_driver(['etag_preimage %s %s %s' % (S(version), S('/' + c['differ']), DICT(c['raw_query']))
                          for c in cases])
        etags = []
        for p in pre:
            if isinstance(p, tuple):
                etags.append(None)
            else:
                etags.append('W/"%s"' % hashlib.sha256(to_str(p).encode('utf-8')).hexdigest())
        inm_lines = []
        for c, e in zip(cases, etags):
            inm = None
            for k, v in received(c):
                if k.lower() == 'if-none-match':
                    inm = v
            inm_lines.append('check_etag_header %s %s' % (S(e or ''), OPT(inm, S)))
        ems = run_driver(inm_lines)
        gets = run_driver([server_get_line(c, df, bool(em) if isinstance(em, int) else False)
                           for c, em in zip(cases, ems)])
        cors_res = run_driver(['cors_allow_origin %s %s' % (OPT(c.get('cors'), S), DICT(received(c)))
                               for c in cases])
    else:
        etags = [None] * len(cases)
        gets = [None] * len(cases)
        cors_res = [None] * len(cases)
    for c, obs, etag, g, cr in zip(cases, observations, etags, gets, cors_res):
        rec = {'case': c, 'obs': obs, 'model': None, 'mismatches': [], 'model_etag': etag}
        if g is None:
            records.append(rec)
            continue
        if isinstance(g, tuple):
            rec['mismatches'].append('model-error:' + str(g))
            records.append(rec)
            continue
        m = decode_model_response(g)
        rec['model'] = m
        mm = rec['mismatches']
        if obs.status != m['status']:
            mm.append('status impl=%s model=%s' % (obs.status, m['status']))
        has_etag = obs.headers.get('Etag') is not None
        if has_etag != m['etag']:
            mm.append('etag-presence impl=%s model=%s' % (has_etag, m['etag']))
        if has_etag and m['etag'] and etag is not None and obs.headers.get('Etag') != etag:
            mm.append('etag-value impl=%s model=%s' % (obs.headers.get('Etag'), etag))
        if m['body'][0] == 'none':
            if obs.body:
                mm.append('body impl non-empty, model none')
        elif m['body'][0] == 'error':
            j = obs.json
            if not (isinstance(j, dict) and j.get('code') == m['body'][1] and isinstance(j.get('error'), str)):
                mm.append('error-body impl=%s model code=%s' % (str(j)[:120], m['body'][1]))
        else:
            j = obs.json
            if not (isinstance(j, dict) and j.get('version') == version):
                mm.append('diff-body impl=%s' % (str(j)[:120],))
            elif not m['body'][3] and j.get('type') != c['differ']:
                mm.append('type impl=%s' % j.get('type'))
            # arguments handed to the differ
            if len(obs.differ_calls) != 1:
                mm.append('differ-calls impl=%d model=1' % len(obs.differ_calls))
            else:
                _, texts = decode_table(c, df)
                rib = not bool(dict(_decoded_params(c)).get('ignore_decoding_errors'))
                exp = {}
                for name, src in m['body'][2]:
                    side = 'a' if (src[0] != 'query' and src[1]) else 'b'
                    sc = side_content(c, df, side) if src[0] != 'query' else None
                    if src[0] == 'url':
                        exp[name] = last_value(c['raw_query'], side)
                    elif src[0] == 'body':
                        exp[name] = sc[1]
                    elif src[0] == 'headers':
                        exp[name] = dict(sc[0].items())
                    elif src[0] == 'text':
                        exp[name] = texts.get((side, rib))
                    else:
                        exp[name] = src[1]
                got = {}
                for k, v in obs.differ_calls[0][1].items():
                    got[k] = dict(v.items()) if hasattr(v, 'items') else v
                if got != exp:
                    mm.append('differ-kwargs impl=%s model=%s' % (str(got)[:300], str(exp)[:300]))
        if m['status'] == 0 or not obs.differ_calls and m['body'][0] == 'diff':
            pass
        if m['body'][0] != 'diff' and m['err'] not in ('422-undiffable', '500-internal') and obs.differ_calls:
            mm.append('differ was called although the model refuses earlier')
        impl_eff = [(e[0], e[1], e[2]) if e[0] == 'fetch' else (e[0], e[1]) for e in obs.log]
        model_eff = [tuple(e) for e in m['effects']]
        if impl_eff != model_eff:
            mm.append('effects impl=%s model=%s' % (impl_eff, model_eff))
        if not isinstance(cr, tuple):
            mc = to_opt(cr, to_str)
            if obs.headers.get('Access-Control-Allow-Origin') != mc:
                mm.append('cors impl=%s model=%s' % (obs.headers.get('Access-Control-Allow-Origin'), mc))
        records.append(rec)
    return records


def _decoded_params(case):
    d = {}
    for k, v in case['raw_query']:
        d[k] = v
    return d.items()


def describe(case):
    return {k: (v if k != 'upstream' else {u: (s if s[0] != 'resp' else [s[0], s[1], s[2], s[3].decode('latin1')[:200]])
                                           for u, s in v.items()})
            for k, v in case.items() if k != 'files'} | \
        {'files': {p: b.decode('latin1')[:200] for p, b in case.get('files', {}).items()},
         'request': build_path(case)}


# ---------------------------------------------------------------- shared generators / reporting
REGISTERED_STATIC = ['length', 'identical_bytes', 'side_by_side_text', 'links', 'links_json', 'html_text_dmp',
              'html_source_dmp', 'html_token']
REGISTERED = REGISTERED_STATIC
HTML_A = b'<html><head><title>Old</title></head><body><p>Hello old <a href="/x">link</a></p></body></html>'
HTML_B = b'<html><head><title>New</title></head><body><p>Hello new <a href="/y">link</a> more</p></body></html>'


def ok_up(body=HTML_A, ctype='text/html; charset=utf-8', code=200, extra=()):
    return ('resp', code, [('Content-Type', ctype)] + list(extra), body)


def report_records(rep, records, observer, label, describe_extra=None, max_report=3):
    """
    observer(case, obs) -> list of property-level failures (strings), judged from the
    property text alone.  Model mismatches without an observer failure are reported as
    broken correspondence (no failing input found).
    """
    n_obs = n_corr = 0
    for r in records:
        c, obs = r['case'], r['obs']
        fails = observer(c, obs) if observer else []
        if fails:
            n_obs += 1
            if n_obs <= max_report:
                rep.violation('%s-observer-%d' % (label, n_obs), {
                    'what': fails, 'case': describe(c), 'status': obs.status,
                    'response_json': obs.json if obs.json is not None else obs.body.decode('latin1')[:300],
                    'etag': obs.headers.get('Etag'), 'upstream_requests_and_opens': obs.log,
                    'differ_calls': [(n, {k: (str(v)[:120]) for k, v in kw.items()}) for n, kw in obs.differ_calls],
                    'model_says': r['model']})
        elif r['mismatches']:
            n_corr += 1
            if n_corr <= max_report:
                rep.violation('%s-correspondence-%d' % (label, n_corr), {
                    'what': 'model and implementation disagree; the property-level observer sees no failure on this input',
                    'correspondence': 'Model/Server.v get vs DiffHandler.get (in-process HTTP)',
                    'disagreements': r['mismatches'], 'case': describe(c), 'status': obs.status,
                    'response_json': obs.json if obs.json is not None else obs.body.decode('latin1')[:300],
                    'model_says': r['model']}, no_input=True)
    rep.obligation('observer %s: property holds on %d requests' % (label, len(records)), n_obs == 0)
    rep.obligation('correspondence %s: model = implementation on %d requests' % (label, len(records)), n_corr == 0)
    return n_obs, n_corr

#!/bin/bash
# usage: sweep_shard.sh <k> <n> [<egrep pattern on ids>]   -- for `vp run --with-repo`: builds this snapshot of /verif against the repository snapshot
# ($VP_RUN_REPO) and sweeps every n-th archived seeded change / reverse fix, starting with the k-th, on that snapshot.
# Several shards run side by side without touching /repo.  Prints "<id> CAUGHT|MISSED <violation lines>" per change.
set -u
K="$1"; N="$2"; PAT="${3:-.}"
cd "$(dirname "$0")/.." || exit 2
export VERIF_REPO="${VP_RUN_REPO:-/repo}"
./setup.sh > setup.log 2>&1 || { echo "setup failed"; tail -5 setup.log; exit 2; }
ids=$( (ls -d seeded/C*-* | xargs -n1 basename; ls regress/*.diff | xargs -n1 basename | sed 's/\.diff$//') | sort | grep -E "$PAT" | awk -v k="$K" -v n="$N" 'NR % n == k')
echo "shard $K/$N on $VERIF_REPO: $(echo $ids | wc -w) changes"
harness/seed_sweep.py $ids 2>&1 | grep -v 'conda\|WARNING'
git -C "$VERIF_REPO" status --short | head -3

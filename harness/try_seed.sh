#!/bin/bash
# usage: try_seed.sh <patch.diff> <ID> [<ID>...]   -- applies a change to /repo, runs the quick checks, undoes it
set -u
PATCH="$(readlink -f "$1")"; shift
cd /repo || exit 2
if ! git diff --quiet; then echo "repo not clean"; exit 2; fi
if git apply --check "$PATCH" 2>/dev/null; then
  git apply "$PATCH"
elif git apply -3 "$PATCH" 2>/dev/null && ! git status --short | grep -q '^U'; then
  git reset -q
else
  git reset -q; git checkout -- .
  echo "PATCH-DOES-NOT-APPLY $PATCH"; exit 3
fi
for id in "$@"; do
  out=$(cd /verif && VERIF_TIER=quick ./check "$id" 2>&1)
  rc=$?
  echo "== $id rc=$rc $(echo "$out" | grep -c '^VIOLATION') violation line(s): $(echo "$out" | grep '^VIOLATION' | head -2 | tr '\n' ' ')"
  echo "$out" | tail -1
done
git checkout -- . ; git status --short | head -3

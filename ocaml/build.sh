#!/bin/sh
# builds the correspondence driver from the extracted model
set -e
cd "$(dirname "$0")"
mkdir -p _build
cp ../coq/extracted.ml ../coq/extracted.mli _build/
cp driver_lib.ml driver.ml _build/
cd _build
ocamlfind ocamlopt -w -a -o driver extracted.mli extracted.ml driver_lib.ml driver.ml

(* dispatch table and main loop of the correspondence driver *)
open Extracted
open Driver_lib

(* ---- dispatch ---- *)
let dispatch (fn : Stdlib.String.t) (args : v list) : v =
  match fn, args with
  | "is_not_html", [text; h; opt] ->
      of_bool (is_not_html (to_str text) (to_headers h) (to_str opt))
  | "raise_if_not_diffable_html", [a; b; ha; hb; opt] ->
      of_opt of_str (ct_error_message
        (raise_if_not_diffable_html (to_str a) (to_str b) (to_headers ha) (to_headers hb) (to_str opt)))
  | "py_lower", [s] -> of_str (py_lower (to_str s))
  | "py_strip", [s] -> of_str (py_strip (to_str s))
  | _ -> failwith (Stdlib.String.concat " " ["unknown function"; fn])

let () =
  let b = Buffer.create 4096 in
  (try
     while true do
       let line = input_line stdin in
       (match tokenize line with
        | [] -> ()
        | fn :: rest ->
            Buffer.clear b;
            (try
               let (args, leftover) = parse_values rest in
               if leftover <> [] then failwith "trailing tokens";
               show b (dispatch fn args)
             with
             | Failure m -> Buffer.add_string b ("ERROR " ^ m)
             | Stack_overflow -> Buffer.add_string b "ERROR stack_overflow"
             | Not_found -> Buffer.add_string b "ERROR not_found");
            print_string (Buffer.contents b);
            print_newline ())
     done
   with End_of_file -> ())

(* dispatch table and main loop of the correspondence driver *)
open Extracted
open Driver_lib

let to_dict = to_list (to_pair to_str to_str)
let of_dict = of_list (of_pair of_str of_str)

let to_upstream (x : v) : upstream =
  match x with
  | L [I 0; h; b] -> UOk (to_dict h, to_str b)
  | L [I 1; c; r] -> UHttpError (to_n c, to_opt (to_pair to_dict to_str) r)
  | L [I 2] -> UValueError
  | L [I 3] -> UOSError
  | L [I 4] -> UTimeoutSimple
  | L [I 5] -> UStreamClosed
  | L [I 6; n] -> UCurl (to_n n)
  | _ -> bad "upstream"

let of_src (s : arg_source) : v =
  match s with
  | FromUrl a -> L [I 0; of_bool a]
  | FromBody a -> L [I 1; of_bool a]
  | FromHeaders a -> L [I 2; of_bool a]
  | FromText a -> L [I 3; of_bool a]
  | FromQuery q -> L [I 4; of_str q]

let of_body (b : body) : v =
  match b with
  | BNone -> L [I 0]
  | BError c -> L [I 1; of_n c]
  | BDiff (d, kw, t) -> L [I 2; of_str d; of_list (of_pair of_str of_src) kw; of_bool t]

let of_err (e : err) : v =
  match e with
  | E404Unknown -> I 0 | E400Missing -> I 1 | E403Production -> I 2 | E400Scheme -> I 3
  | E400Value -> I 4 | E502OS -> I 5 | E504Timeout -> I 6 | E502Closed -> I 7
  | E400CurlUrl -> I 8 | E502TooBig -> I 9 | E502CurlConnect -> I 10 | E502CurlUnknown -> I 11
  | E502Upstream c -> L [I 12; of_n c] | E502HashMismatch -> I 13 | E422Undiffable -> I 14
  | E422Undecodable -> I 15 | E500Internal -> I 16

let of_effect (e : effect) : v =
  match e with
  | EFetch (u, h) -> L [I 0; of_str u; of_dict h]
  | EOpen p -> L [I 1; of_str p]

let rec to_node (x : v) : node =
  match x with
  | L [I 0; s] -> NText (to_str s)
  | L [I 1; name; attrs; children] -> NElem (to_str name, to_dict attrs, to_list to_node children)
  | _ -> bad "node"
let to_anchor = to_pair to_dict (to_list to_node)
let to_link (x : v) : link = match x with L [h; t] -> { l_href = to_str h; l_text = to_str t } | _ -> bad "link"
let of_link (l : link) : v = L [of_str l.l_href; of_str l.l_text]
let of_entry (e : entry) : v =
  match e with
  | Unchanged (o, n) -> L [I 0; of_link o; of_link n]
  | Changed (o, n) -> L [I 100; of_link o; of_link n]
  | Removed o -> L [I (-1); of_link o]
  | Added n -> L [I 1; of_link n]
let to_tag (x : v) : tag = match x with I 0 -> Equal | I 1 -> Replace | I 2 -> Delete | I 3 -> Insert | _ -> bad "tag"
let of_tag (t : tag) : v = match t with Equal -> I 0 | Replace -> I 1 | Delete -> I 2 | Insert -> I 3
let to_opcode (x : v) : opcode =
  match x with L [t; a1; a2; b1; b2] -> ((to_tag t, (to_nat a1, to_nat a2)), (to_nat b1, to_nat b2)) | _ -> bad "opcode"
let of_opcode (((t, (a1, a2)), (b1, b2)) : opcode) : v = L [of_tag t; of_nat a1; of_nat a2; of_nat b1; of_nat b2]

let rec to_el (x : v) : el =
  match x with
  | L [tag; attrs; text; children; tail; source] ->
      El (to_str tag, to_dict attrs, to_str text, to_list to_el children, to_str tail, to_str source)
  | _ -> bad "el"
let to_rule (x : v) : rule = match x with I 0 -> RJsession | I 1 -> RWayback | I 2 -> RWaybackUk | _ -> bad "rule"
let to_rules (x : v) = to_opt (to_list to_rule) x
let of_token (t : token) : v =
  let k = (match t.t_kind with KWord -> L [I 0] | KHref -> L [I 1] | KImg s -> L [I 2; of_list of_str s] | KUndiff -> L [I 3] | KSpacer -> L [I 4]) in
  L [k; of_str t.t_text; of_str t.t_html; of_list of_str t.t_pre; of_list of_str t.t_post; of_str t.t_trail]

(* ---- dispatch ---- *)
let dispatch (fn : Stdlib.String.t) (args : v list) : v =
  match fn, args with
  | "is_not_html", [text; h; opt] ->
      of_bool (is_not_html (to_str text) (to_headers h) (to_str opt))
  | "raise_if_not_diffable_html", [a; b; ha; hb; opt] ->
      of_opt of_str (ct_error_message
        (raise_if_not_diffable_html (to_str a) (to_str b) (to_headers ha) (to_headers hb) (to_str opt)))
  | "server_get", [prod; ups; files; fhdrs; shas; dec; dout; differ; raw; rh; em] ->
      let ups = to_list (to_pair to_str to_upstream) ups in
      let files = to_list (to_pair to_str to_str) files in
      let fhdrs = to_list (to_pair to_str to_dict) fhdrs in
      let shas = to_list (to_pair to_str to_str) shas in
      let dec = to_list to_bool dec in
      let lookup tbl dflt k = (try List.assoc k tbl with Not_found -> dflt) in
      let decode_ok a_side rib =
        List.nth dec ((if a_side then 0 else 2) + (if rib then 0 else 1)) in
      let dout = (match dout with
                  | L [I 0; t] -> DResult (to_bool t)
                  | L [I 1] -> DUndiffable
                  | _ -> DOther) in
      let (resp, effects) =
        get (to_bool prod) (lookup ups UOSError) (lookup files []) (lookup fhdrs []) (lookup shas [])
          decode_ok (fun _ _ -> dout) (to_str differ) (to_dict raw) (to_dict rh) (to_bool em) in
      L [ of_n resp.r_status; of_body resp.r_body; of_bool resp.r_etag;
          of_opt (fun e -> of_n (err_status e)) resp.r_err; of_opt of_err resp.r_err;
          of_list of_effect effects ]
  | "extract_encoding", [h; content; meta; prolog; det; known] ->
      let known = to_list (to_pair to_str to_bool) known in
      let lookup k = (try List.assoc k known with Not_found -> false) in
      of_str (extract_encoding (fun _ -> to_opt to_str meta) (fun _ -> to_opt to_str prolog)
                (fun _ -> to_opt to_str det) lookup (to_dict h) (to_str content))
  | "decode_body", [h; content; meta; prolog; det; known; dec; rib] ->
      let known = to_list (to_pair to_str to_bool) known in
      let lookup k = (try List.assoc k known with Not_found -> false) in
      let dec = to_list (to_pair to_str (to_opt to_str)) dec in
      let decode enc _ = (try List.assoc enc dec with Not_found -> None) in
      (match decode_body (fun _ -> to_opt to_str meta) (fun _ -> to_opt to_str prolog)
               (fun _ -> to_opt to_str det) lookup decode (to_dict h) (to_str content) (to_bool rib) with
       | None -> L [I 2]
       | Some (Text t) -> L [I 0; of_str t]
       | Some (Undecodable e) -> L [I 1; of_str e])
  | "pool_run", [tries; restart; evs] ->
      let ev (x : v) : event =
        (match x with
         | L [I 0; r] -> Start (to_nat r)
         | L [I 1; r] -> DeliverOk (to_nat r)
         | L [I 2; r] -> DeliverBroken (to_nat r)
         | L [I 3; p] -> Break (to_nat p)
         | L [I 4; i] -> BeginShutdown (to_bool i)
         | _ -> bad "event") in
      let st = run (to_nat tries) (to_bool restart) (to_list ev evs) in
      let of_rstate (s : rstate) : v =
        (match s with
         | NotStarted -> L [I 0]
         | Waiting (a, p) -> L [I 1; of_nat a; of_nat p]
         | Done OkDiff -> L [I 2; I 0]
         | Done ErrBroken -> L [I 2; I 1]
         | Done ErrShutdown -> L [I 2; I 2]) in
      L [ of_opt of_nat st.current; of_list of_nat st.created; of_list of_nat st.shut; of_list of_nat st.killed;
          of_list of_nat st.broken; of_list of_nat st.replaced; of_list (of_pair of_nat of_nat) st.submits;
          of_nat st.quits; of_bool st.terminating; of_list (of_pair of_nat of_rstate) st.reqs ]
  | "get_visible_text", [nodes] ->
      of_str (get_visible_text (to_list (to_pair to_str to_str) nodes))
  | "source_diff", [ops] ->
      (* the library's raw operations are supplied; the model maps codes and counts *)
      let raw = to_list (to_pair to_n to_str) ops in
      let (n, d) = html_source_diff (fun _ _ -> raw) [] [] in
      let of_z (z : z) : v = (match z with Z0 -> I 0 | Zpos p -> I (int_of_pos p) | Zneg p -> I (- (int_of_pos p))) in
      L [ of_n n; of_list (of_pair of_z of_str) d; of_str (old_side d); of_str (new_side d) ]
  | "links_diff", [a; b] ->
      let (n, d) = links_diff (to_list to_anchor a) (to_list to_anchor b) in
      L [of_nat n; of_list of_entry d]
  | "sort_links", [l] -> of_list of_link (sort_links (to_list to_link l))
  | "page_links", [a] -> of_list of_link (page_links (to_list to_anchor a))
  | "links_assemble", [a; b; ops] ->
      let d = x_links_assemble_diff (to_list to_link a) (to_list to_link b) (to_list to_opcode ops) in
      L [of_nat (x_links_count_changes d); of_list of_entry d]
  | "links_rebalance", [a; b; ops] ->
      of_list of_opcode (rebalance (to_list to_link a) (to_list to_link b) (to_list to_opcode ops))
  | "links_opcodes", [a; b] ->
      of_list of_opcode (get_opcodes same_key rough_eq dlink (to_list to_link a) (to_list to_link b))
  | "clean_href", [h] -> of_str (clean_href (to_str h))
  | "htmldiff", [o; n; rules; ms] ->
      let (c, ((comb, ins), del)) = htmldiff (to_el o) (to_el n) (to_rules rules) (to_n ms) in
      L [of_nat c.change_count; of_nat c.deletions_count; of_nat c.insertions_count; of_str comb; of_str ins; of_str del]
  | "nesting", [o; n; rules; ms] ->
      L (List.map (fun b -> I (if b then 1 else 0)) (nesting_report (to_el o) (to_el n) (to_rules rules) (to_n ms)))
  | "links_html", [title; ins; del; entries] ->
      let to_z (x : v) : z = (match x with I 0 -> Z0 | I k when k > 0 -> Zpos (pos_of_int k) | I k -> Zneg (pos_of_int (- k)) | _ -> bad "z") in
      let to_dmp = to_list (to_pair to_z to_str) in
      let to_hentry (x : v) : hentry = (match x with
        | L [I 100; td; hd; o; n] -> EChanged (to_dmp td, to_dmp hd, to_str o, to_str n)
        | L [c; t; h] -> EPlain (to_z c, to_str t, to_str h)
        | _ -> bad "hentry") in
      of_str (links_html (to_str title) (to_str ins) (to_str del) (to_list to_hentry entries))
  | "render_view", [k; o; n; ops; ic; dc; body] ->
      let to_z (x : v) : z = (match x with I 0 -> Z0 | I k when k > 0 -> Zpos (pos_of_int k) | I k -> Zneg (pos_of_int (- k)) | _ -> bad "z") in
      let to_attrs = to_list (to_pair to_str to_str) in
      let rec to_snode (x : v) : snode = (match x with
        | L [I 0; s] -> SText (to_str s)
        | L [I 1; name; attrs; I vd; L children] -> SEl (to_str name, to_attrs attrs, (vd = 1), List.map to_snode children)
        | _ -> bad "snode") in
      let to_sdoc (x : v) : sdoc = (match x with
        | L [dt; ha; hda; L hd; ba; L bd] ->
            { d_doctype = to_opt to_str dt; d_html_attrs = to_attrs ha; d_head_attrs = to_attrs hda; d_head = List.map to_snode hd;
              d_body_attrs = to_attrs ba; d_body = List.map to_snode bd }
        | _ -> bad "sdoc") in
      let kind = (match k with I 0 -> KCombined | I 1 -> KInsertions | I 2 -> KDeletions | _ -> bad "kind") in
      of_str (render_view kind (to_sdoc o) (to_sdoc n) (to_list (to_pair to_z to_str) ops) (to_str ic) (to_str dc)
                (match body with L l -> List.map to_snode l | _ -> bad "body"))
  | "doc_title", [d] ->
      let to_attrs = to_list (to_pair to_str to_str) in
      let rec to_snode (x : v) : snode = (match x with
        | L [I 0; s] -> SText (to_str s)
        | L [I 1; name; attrs; I vd; L children] -> SEl (to_str name, to_attrs attrs, (vd = 1), List.map to_snode children)
        | _ -> bad "snode") in
      (match d with
        | L [dt; ha; hda; L hd; ba; L bd] ->
            of_str (doc_title { d_doctype = to_opt to_str dt; d_html_attrs = to_attrs ha; d_head_attrs = to_attrs hda; d_head = List.map to_snode hd;
              d_body_attrs = to_attrs ba; d_body = List.map to_snode bd })
        | _ -> bad "sdoc")
  | "diffable_fragment", [body] ->
      let to_attrs = to_list (to_pair to_str to_str) in
      let rec to_snode (x : v) : snode = (match x with
        | L [I 0; s] -> SText (to_str s)
        | L [I 1; name; attrs; I vd; L children] -> SEl (to_str name, to_attrs attrs, (vd = 1), List.map to_snode children)
        | _ -> bad "snode") in
      of_str (diffable_fragment (match body with L l -> List.map to_snode l | _ -> bad "body"))
  | "selected_views", [inc] -> of_list (fun k -> of_str (kind_name k)) (selected (to_str inc))
  | "html_lex", [s] ->
      let of_attrs = of_list (of_pair of_str of_str) in
      let of_tok (t : tok) : v = (match t with
        | TText s -> L [I 0; of_str s] | TDecl s -> L [I 1; of_str s] | TStart (n, a) -> L [I 2; of_str n; of_attrs a]
        | TVoid (n, a) -> L [I 3; of_str n; of_attrs a] | TEnd n -> L [I 4; of_str n]) in
      of_list of_tok (clean (lex (to_str s)))
  | "url_eq", [rules; a; b] -> of_bool (url_eq (to_rules rules) (to_str a) (to_str b))
  | "token_opcodes", [o; n; rules; ms] ->
      let ops = token_opcodes (to_rules rules) (prepare (to_el o) (to_n ms)) (prepare (to_el n) (to_n ms)) in
      of_list of_opcode ops
  | "prepare", [e; ms] -> of_list of_token (prepare (to_el e) (to_n ms))
  | "tokenize", [e] -> of_list of_token (x_render_tokenize (to_el e))
  | "merge_changes", [chunks; tt] -> of_list of_str (merge_changes (to_list to_str chunks) (to_str tt))
  | "cors_allow_origin", [conf; rh] ->
      of_opt of_str (cors_allow_origin (to_opt to_str conf) (to_dict rh))
  | "upstream_headers", [q; rh] -> of_dict (upstream_headers (to_dict q) (to_dict rh))
  | "decode_query_params", [raw] -> of_dict (decode_query_params (to_dict raw))
  | "etag_preimage", [v; path; raw] -> of_str (etag_preimage (to_str v) (to_str path) (to_dict raw))
  | "check_etag_header", [c; inm] -> of_bool (check_etag_header (to_str c) (to_opt to_str inm))
  | "py_repr_str", [s] -> of_str (py_repr_str (to_str s))
  | "py_lower", [s] -> of_str (py_lower (to_str s))
  | "py_strip", [s] -> of_str (py_strip (to_str s))
  | _ -> failwith (Stdlib.String.concat " " ["unknown function"; fn])

let () =
  let b = Buffer.create 4096 in
  (try
     while true do
       let line = input_line stdin in
       (match tokenize line with
        | [] -> ()
        | fn :: rest ->
            Buffer.clear b;
            (try
               let (args, leftover) = parse_values rest in
               if leftover <> [] then failwith "trailing tokens";
               show b (dispatch fn args)
             with
             | Failure m -> Buffer.add_string b ("ERROR " ^ m)
             | Stack_overflow -> Buffer.add_string b "ERROR stack_overflow"
             | Not_found -> Buffer.add_string b "ERROR not_found");
            print_string (Buffer.contents b);
            print_newline ())
     done
   with End_of_file -> ())

(* Correspondence driver library: reads one case per line
     <function-name> <value> <value> ...
   where a value is an integer or a parenthesised list of values (tokens are
   separated by blanks), runs the extracted model and prints the result in the
   same syntax.  Strings are lists of code points. *)

type v = I of int | L of v list

let tokenize (s : Stdlib.String.t) : Stdlib.String.t list =
  List.filter (fun t -> t <> "") (String.split_on_char ' ' s)

let rec parse_values (toks : Stdlib.String.t list) : v list * Stdlib.String.t list =
  match toks with
  | [] -> ([], [])
  | ")" :: rest -> ([], ")" :: rest)
  | "(" :: rest ->
      let (items, rest') = parse_values rest in
      (match rest' with
       | ")" :: rest'' ->
           let (more, r) = parse_values rest'' in
           (L items :: more, r)
       | _ -> failwith "unbalanced parentheses")
  | t :: rest ->
      let (more, r) = parse_values rest in
      (I (int_of_string t) :: more, r)

let rec show (b : Buffer.t) (x : v) : unit =
  match x with
  | I n -> Buffer.add_string b (string_of_int n)
  | L items ->
      Buffer.add_string b "(";
      List.iter (fun y -> Buffer.add_char b ' '; show b y) items;
      Buffer.add_string b " )"

(* ---- numbers ---- *)
let rec pos_of_int (n : int) : Extracted.positive =
  if n = 1 then Extracted.XH
  else if n land 1 = 0 then Extracted.XO (pos_of_int (n lsr 1))
  else Extracted.XI (pos_of_int (n lsr 1))
let n_of_int (n : int) : Extracted.n = if n = 0 then Extracted.N0 else Extracted.Npos (pos_of_int n)
let rec int_of_pos (p : Extracted.positive) : int =
  match p with Extracted.XH -> 1 | Extracted.XO q -> 2 * int_of_pos q | Extracted.XI q -> 2 * int_of_pos q + 1
let int_of_n (x : Extracted.n) : int = match x with Extracted.N0 -> 0 | Extracted.Npos p -> int_of_pos p
let rec nat_of_int (n : int) : Extracted.nat = if n <= 0 then Extracted.O else Extracted.S (nat_of_int (n - 1))
let rec int_of_nat (x : Extracted.nat) : int = match x with Extracted.O -> 0 | Extracted.S y -> 1 + int_of_nat y

(* ---- generic converters ---- *)
let bad what = failwith ("bad argument: " ^ what)
let to_str (x : v) : Extracted.n list =
  match x with L items -> List.map (function I c -> n_of_int c | _ -> bad "str") items | _ -> bad "str"
let of_str (s : Extracted.n list) : v = L (List.map (fun c -> I (int_of_n c)) s)
let to_list f (x : v) = match x with L items -> List.map f items | _ -> bad "list"
let of_list f l = L (List.map f l)
let to_opt f (x : v) = match x with L [] -> None | L [y] -> Some (f y) | _ -> bad "option"
let of_opt f o = match o with None -> L [] | Some y -> L [f y]
let to_pair f g (x : v) = match x with L [a; b] -> (f a, g b) | _ -> bad "pair"
let of_pair f g (a, b) = L [f a; g b]
let to_bool (x : v) = match x with I 0 -> false | I _ -> true | _ -> bad "bool"
let of_bool b = I (if b then 1 else 0)
let to_int (x : v) = match x with I n -> n | _ -> bad "int"
let to_n (x : v) = n_of_int (to_int x)
let of_n x = I (int_of_n x)
let to_nat (x : v) = nat_of_int (to_int x)
let of_nat x = I (int_of_nat x)

let to_headers = to_opt (to_list (to_pair to_str to_str))


#!/bin/bash
# Offline build of the framework: tables from /repo, full Coq build, extraction, driver.
set -e
cd "$(dirname "$0")"
export PYTHONHASHSEED=0 PYTHONWARNINGS=ignore
/venv/bin/python -W ignore harness/gen_tables.py "${VERIF_REPO:-/repo}" coq/theories/Gen/Tables.v
cd coq
coq_makefile -f _CoqProject -o Makefile
timeout 3000 make -j"$(nproc)"
cd ..
ocaml/build.sh
echo "setup ok"
